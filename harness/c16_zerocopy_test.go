//go:build verif

package harness

import (
	"fmt"
	"net"
	"net/netip"
	"testing"
	"time"
	"unsafe"

	"github.com/irai/packet"
	"pgregory.net/rapid"
	"verifharness/drv"
	"verifharness/gen"
	"verifharness/ref"
)

// C16 — Parsing is zero-copy and allocation-free in steady state.

const c16Rule = "well-formed frames of every PayloadID class and address family from the frame generator, with the source rewritten to one of six situations (already tracked client, own MAC, router MAC with global source, multicast source, off-LAN source, newly seen client); oracle 1: every view returned by Parse is the input buffer at the reference offset (pointer identity, write-through in both directions, nothing beyond the frame); oracle 2: testing.AllocsPerRun(50, Parse) == 0 once the source is tracked, also for a station alternating between 2..5 of its own addresses (IPv4, link-local, two global, ULA), for 2..4 tracked stations taking turns through a ring of 1..3 receive buffers (same *Host afterwards), and for echo messages after earlier pings of the process. non-trivial = a frame whose reference decoding entered the network layer; distinct by (class, situation, hash of the bytes)"

type c16Case struct {
	Data      drv.Hex `json:"data"`
	Situation string  `json:"situation"`
}

type c16Rotation struct {
	Addrs  []int `json:"addrs"` // 0 IPv4, 1 link-local, 2 and 3 global, 4 ULA
	Client int   `json:"client"`
	Rounds int   `json:"rounds"`
}

var c16Situations = []string{"tracked", "own", "router-global", "multicast-src", "offlan", "new", "captured"}

// c16Apply rewrites source MAC / IP of a generated frame for the situation.
func c16Apply(w gen.World, b []byte, sit string) []byte {
	b = append([]byte(nil), b...)
	if len(b) < 14 {
		return b
	}
	d := ref.Decode(b)
	set4 := func(a [4]byte) {
		if d.OffIP4 > 0 {
			copy(b[d.OffIP4+12:], a[:])
			// keep the header checksum consistent (not checked by Parse, but keeps the frame well-formed)
			b[d.OffIP4+10], b[d.OffIP4+11] = 0, 0
			cs := ref.Checksum(b[d.OffIP4 : d.OffIP4+int(b[d.OffIP4]&0x0f)*4])
			b[d.OffIP4+10], b[d.OffIP4+11] = byte(cs>>8), byte(cs)
		}
		if d.PayloadID == ref.PARP && len(b) >= 14+28 {
			copy(b[14+14:], a[:])
		}
	}
	set6 := func(a [16]byte) {
		if d.OffIP6 > 0 {
			copy(b[d.OffIP6+8:], a[:])
		}
	}
	mac := func(m ref.MAC) {
		copy(b[6:12], m[:])
		if d.PayloadID == ref.PARP && len(b) >= 14+28 {
			copy(b[14+8:], m[:])
		}
	}
	switch sit {
	case "tracked", "new", "captured":
		mac(w.Clients[1])
		set4([4]byte{192, 168, 0, 77})
		set6(netip.MustParseAddr("fe80::77").As16())
	case "own":
		mac(w.HostMAC)
		set4(w.HostIP.As4())
		set6(w.HostLLA.As16())
	case "router-global":
		mac(w.RouterMAC)
		set4([4]byte{8, 8, 8, 8})
		set6(netip.MustParseAddr("2001:4860:4860::8888").As16())
	case "multicast-src":
		mac(ref.MAC{0x01, 0x00, 0x5e, 0, 0, 1})
	case "offlan":
		mac(w.Clients[2])
		set4([4]byte{172, 16, 5, 5})
		set6(netip.MustParseAddr("ff02::1").As16())
	}
	return b
}

func c16Run(tb drv.TB, rec *drv.Rec, sub string, c c16Case) {
	rec.Eval()
	drv.Begin("C16", sub, 'J', mustJSON(c), 30*time.Second)
	defer drv.End()
	want := ref.Decode(c.Data)
	if want.Err {
		return // only well-formed frames are in the statement
	}
	s, _ := newSession(defaultNIC())
	defer closeSession(s)
	buf := make([]byte, packet.EthMaxSize)
	n := copy(buf, c.Data)
	in := buf[:n]
	if c.Situation == "captured" && n >= 12 { // the station is known and in capture mode (Session.Capture) when the frame under test arrives
		pre := make([]byte, packet.EthMaxSize)
		s.Parse(pre[:copy(pre, c.Data)])
		s.Capture(net.HardwareAddr(append([]byte(nil), c.Data[6:12]...)))
	}
	frame, err := s.Parse(in)
	if err != nil {
		if want.Lenient {
			return
		}
		rec.Violation(tb, sub, "c16-parse-error", c, "well-formed frame rejected: %v", err)
		return
	}
	base := uintptr(unsafe.Pointer(&buf[0]))
	views := []struct {
		name string
		v    []byte
		off  int
	}{{"Ether", frame.Ether(), 0}, {"IP4", frame.IP4(), want.OffIP4}, {"IP6", frame.IP6(), want.OffIP6}, {"UDP", frame.UDP(), want.OffUDP}, {"TCP", frame.TCP(), want.OffTCP}, {"Payload", frame.Payload(), want.OffPayload}}
	for _, v := range views {
		present := v.name == "Ether" || v.off != 0
		if (v.v != nil) != present {
			rec.Violation(tb, sub, "c16-view-presence-"+v.name, c, "Frame.%s() present=%v, reference %v", v.name, v.v != nil, present)
			return
		}
		if v.v == nil || len(v.v) == 0 {
			continue
		}
		ptr := uintptr(unsafe.Pointer(unsafe.SliceData(v.v)))
		if ptr != base+uintptr(v.off) {
			rec.Violation(tb, sub, "c16-not-aliased-"+v.name, c, "Frame.%s() does not point at buffer offset %d (it points at offset %d from the buffer start)", v.name, v.off, int64(ptr)-int64(base))
			return
		}
		if v.off+len(v.v) > n || (v.name == "Ether" && len(v.v) != n) {
			rec.Violation(tb, sub, "c16-beyond-frame-"+v.name, c, "Frame.%s() spans %d..%d, the frame is %d bytes", v.name, v.off, v.off+len(v.v), n)
			return
		}
		// write through the view -> visible in the buffer; write to the buffer -> visible through the view
		k := len(v.v) - 1
		old := v.v[k]
		v.v[k] = old ^ 0x5a
		if buf[v.off+k] != old^0x5a {
			rec.Violation(tb, sub, "c16-write-through-"+v.name, c, "a write through Frame.%s() is not visible in the buffer", v.name)
			return
		}
		buf[v.off+k] = old
		if v.v[k] != old {
			rec.Violation(tb, sub, "c16-write-back-"+v.name, c, "a write to the buffer is not visible through Frame.%s()", v.name)
			return
		}
	}
	for name, m := range map[string][]byte{"SrcAddr.MAC": frame.SrcAddr.MAC, "DstAddr.MAC": frame.DstAddr.MAC} {
		wantOff := 6
		if name == "DstAddr.MAC" {
			wantOff = 0
		}
		if len(m) != 6 || uintptr(unsafe.Pointer(unsafe.SliceData(m))) != base+uintptr(wantOff) {
			rec.Violation(tb, sub, "c16-mac-not-aliased", c, "%s does not alias the buffer at offset %d", name, wantOff)
			return
		}
	}
	// allocations in steady state: the frame has been parsed once, the source (if any) is tracked
	if c.Situation != "new" {
		measure := func() float64 { return testing.AllocsPerRun(50, func() { s.Parse(in) }) }
		if a := measure(); a != 0 {
			if a2, a3 := measure(), measure(); a2 != 0 && a3 != 0 { // re-measured twice before it is believed
				rec.Violation(tb, sub, fmt.Sprintf("c16-allocs-pid%d-%s", want.PayloadID, c.Situation), c, "Parse allocates %.0f/%.0f/%.0f times per call for a class %d frame (%s source)", a, a2, a3, want.PayloadID, c.Situation)
				return
			}
		}
	}
	rec.Class(fmt.Sprintf("pid=%d %s", want.PayloadID, c.Situation))
	if want.Depth >= 1 {
		rec.NonTrivial(drv.HashBytes([]byte(c.Situation), c.Data), func() interface{} { return c })
	}
}

func TestC16(t *testing.T) {
	rec := drv.For("C16", c16Rule)
	w := gen.DefaultWorld()
	drv.Prop(t, rec, "frames", 3000, 60000, func(t *rapid.T) c16Case {
		f := w.Frame(nil).Draw(t, "frame")
		sit := rapid.SampledFrom(c16Situations).Draw(t, "situation")
		b := c16Apply(w, f.Bytes, sit)
		// a UDP length field that disagrees with the bytes present does not make Parse reject the frame: the views must still end with the frame
		if d := ref.Decode(b); d.OffUDP > 0 && !d.Err && rapid.IntRange(0, 3).Draw(t, "udplen") == 0 {
			ul := len(b) - d.OffUDP
			v := rapid.SampledFrom([]int{ul + 1, ul + 7, ul + 8, ul + 64, ul + 300, 0xffff, ul - 1, 8, 0}).Draw(t, "udplenv")
			if v >= 0 && v <= 0xffff {
				b[d.OffUDP+4], b[d.OffUDP+5] = byte(v>>8), byte(v)
			}
		}
		return c16Case{Data: b, Situation: sit}
	}, func(tb drv.TB, c c16Case) { c16Run(tb, rec, "frames", c) })
	// every UDP port class explicitly (a regression in one switch case must not hide behind the class mix)
	ports := gen.InterestingPorts
	drv.Enum(t, rec, "port-classes", len(ports)*2*len(c16Situations), func(i int) c16Case {
		p := ports[i%len(ports)]
		dir := (i / len(ports)) % 2
		sit := c16Situations[i/(len(ports)*2)]
		sp, dp := uint16(40000), p
		if dir == 1 {
			sp, dp = p, 40000
		}
		b := ref.Eth(w.RouterMAC, w.Clients[0], 0x0800, ref.IP4(ref.IP4Hdr{TotalLen: -1, TTL: 64, Proto: 17, Checksum: -1, Src: [4]byte{192, 168, 0, 5}, Dst: [4]byte{192, 168, 0, 255}}, ref.UDP(sp, dp, -1, 0, []byte("0123456789"))))
		return c16Case{Data: c16Apply(w, b, sit), Situation: sit}
	}, func(tb drv.TB, c c16Case) { c16Run(tb, rec, "port-classes", c) })
	// a tracked station that uses several addresses at once (IPv4, link-local, two global IPv6 addresses as with
	// RFC 4941 temporary addresses, ULA): frames alternating between them are steady state too
	drv.Prop(t, rec, "tracked-rotation", 300, 6000, func(t *rapid.T) c16Rotation {
		all := []int{0, 1, 2, 3, 4}
		order := rapid.Permutation(all).Draw(t, "order")
		n := rapid.IntRange(2, 5).Draw(t, "naddrs")
		return c16Rotation{Addrs: order[:n], Client: rapid.IntRange(0, 3).Draw(t, "client"), Rounds: rapid.IntRange(1, 3).Draw(t, "rounds")}
	}, func(tb drv.TB, c c16Rotation) {
		rec.Eval()
		drv.Begin("C16", "tracked-rotation", 'J', mustJSON(c), 30*time.Second)
		defer drv.End()
		s, _ := newSession(defaultNIC())
		defer closeSession(s)
		mac := w.Clients[c.Client%4]
		var frames [][]byte
		for _, a := range c.Addrs {
			var b []byte
			switch a {
			case 0:
				b = ref.Eth(w.RouterMAC, mac, 0x0800, ref.IP4(ref.IP4Hdr{TotalLen: -1, TTL: 64, Proto: 17, Checksum: -1, Src: [4]byte{192, 168, 0, byte(60 + c.Client)}, Dst: [4]byte{192, 168, 0, 11}}, ref.UDP(40000, 9999, -1, 0, []byte("x"))))
			default:
				src := netip.MustParseAddr([]string{"", "fe80::60", "2001:db8::60", "2001:db8::1:60", "fd00::60"}[a]).As16()
				src[14] = byte(c.Client)
				b = ref.Eth(w.RouterMAC, mac, 0x86dd, ref.IP6(ref.IP6Hdr{PayloadLen: -1, Next: 17, HopLimit: 64, Src: src, Dst: netip.MustParseAddr("2001:db8::1").As16()}, ref.UDP(40000, 9999, -1, 0, []byte("x"))))
			}
			buf := make([]byte, len(b), packet.EthMaxSize)
			copy(buf, b)
			frames = append(frames, buf)
		}
		round := func() {
			for k := 0; k < c.Rounds; k++ {
				for _, f := range frames {
					s.Parse(f)
				}
			}
		}
		round()
		round() // every address is tracked and online now
		measure := func() float64 { return testing.AllocsPerRun(20, round) }
		if a := measure(); a != 0 {
			if a2, a3 := measure(), measure(); a2 != 0 && a3 != 0 {
				rec.Violation(tb, "tracked-rotation", "c16-allocs-rotation", c, "a tracked station alternating between %d of its addresses costs %.0f/%.0f/%.0f allocations per round of %d frames", len(frames), a, a2, a3, len(frames)*c.Rounds)
				return
			}
		}
		// the station then shows up under one more address of the other family (a new host: that frame may allocate);
		// frames from the addresses that were tracked before must stay free of allocations
		extra := ref.Eth(w.RouterMAC, mac, 0x0800, ref.IP4(ref.IP4Hdr{TotalLen: -1, TTL: 64, Proto: 17, Checksum: -1, Src: [4]byte{192, 168, 0, byte(90 + c.Client)}, Dst: [4]byte{192, 168, 0, 11}}, ref.UDP(40000, 9999, -1, 0, []byte("x"))))
		eb := make([]byte, len(extra), packet.EthMaxSize)
		copy(eb, extra)
		s.Parse(eb)
		if a := testing.AllocsPerRun(1, round); a != 0 {
			{
				// the first measured round after the new address decides: the situation is created once more on a fresh session to confirm
				s2, _ := newSession(defaultNIC())
				defer closeSession(s2)
				r2 := func() {
					for _, f := range frames {
						s2.Parse(f)
					}
				}
				r2()
				r2()
				s2.Parse(eb)
				if a3 := testing.AllocsPerRun(1, r2); a3 != 0 {
					rec.Violation(tb, "tracked-rotation", "c16-allocs-after-new-address", c, "after the station was seen under one more IPv4 address, a round over its %d already tracked addresses costs %.0f (and %.0f on a fresh session) allocations", len(frames), a, a3)
					return
				}
			}
		}
		rec.NonTrivial(drv.HashJSON(c), func() interface{} { return c })
	})

	// echo replies from a tracked station in a process that has used Ping before (the ping machinery is process-wide):
	// the earlier pings are long over, so a reply with whatever identifier is an ordinary frame of a tracked host
	type c16Echo struct {
		Flight bool   `json:"flight,omitempty"` // a ping of this process (to a station that does not answer) is still waiting while the frames are measured
		Pings  int    `json:"pings"`            // pings issued (and timed out or refused) before the measurement
		V6     bool   `json:"v6"`
		Type   byte   `json:"type"`
		ID     uint16 `json:"id"`
	}
	drv.Prop(t, rec, "echo-after-ping", 200, 3000, func(t *rapid.T) c16Echo {
		v6 := rapid.Bool().Draw(t, "v6")
		typ := rapid.SampledFrom([]byte{0, 0, 8}).Draw(t, "type")
		if v6 {
			typ = rapid.SampledFrom([]byte{129, 129, 128}).Draw(t, "type6")
		}
		return c16Echo{Pings: rapid.IntRange(0, 2).Draw(t, "pings"), V6: v6, Type: typ, ID: rapid.Uint16().Draw(t, "id"), Flight: rapid.IntRange(0, 4).Draw(t, "flight") == 0}
	}, func(tb drv.TB, c c16Echo) {
		rec.Eval()
		drv.Begin("C16", "echo-after-ping", 'J', mustJSON(c), 30*time.Second)
		defer drv.End()
		s, _ := newSession(defaultNIC())
		defer closeSession(s)
		for i := 0; i < c.Pings; i++ {
			if i%2 == 0 {
				s.Ping(packet.Addr{MAC: hw(w.Clients[1]), IP: netip.MustParseAddr("192.168.0.6")}, 5*time.Millisecond)
			} else {
				s.Ping6(packet.Addr{MAC: hw(w.HostMAC), IP: w.HostLLA}, packet.Addr{MAC: hw(w.Clients[1]), IP: netip.MustParseAddr("fe80::bb")}, 5*time.Millisecond)
			}
		}
		fb := echoFrame(w, c.V6, c.Type, c.ID)
		buf := make([]byte, len(fb), packet.EthMaxSize)
		copy(buf, fb)
		run := func() { s.Parse(buf) }
		run()
		run()         // tracked and online now
		if c.Flight { // somebody else's ping is pending for the whole measurement (it times out afterwards)
			done := make(chan struct{})
			go func() {
				defer close(done)
				s.Ping(packet.Addr{MAC: hw(w.Clients[2]), IP: netip.MustParseAddr("192.168.0.7")}, 250*time.Millisecond)
			}()
			defer func() { <-done }()
			for i := 0; i < 200 && packet.VerifPingWaiters() == 0; i++ {
				time.Sleep(time.Millisecond)
			}
			if packet.VerifPingWaiters() == 0 {
				rec.Class("inconclusive: the background ping did not register in time")
				return
			}
		}
		measure := func() float64 { return testing.AllocsPerRun(20, run) }
		if a := measure(); a != 0 {
			if a2, a3 := measure(), measure(); a2 != 0 && a3 != 0 {
				rec.Violation(tb, "echo-after-ping", "c16-allocs-echo", c, "an ICMP echo message (type %d, identifier %d) from a tracked station costs %.0f/%.0f/%.0f allocations per Parse after %d earlier pings of this session (pings issued in this process so far: at least that many)", c.Type, c.ID, a, a2, a3, c.Pings)
				return
			}
		}
		rec.Class(fmt.Sprintf("echo type %d after >= %d pings", c.Type, c.Pings))
		if c.Pings > 0 {
			rec.NonTrivial(drv.HashJSON(c), func() interface{} { return c })
		}
	})

	// several tracked stations taking turns through a receive ring of 1..3 buffers (a read loop hands Parse whichever
	// buffer the next frame landed in): every station is tracked after the warm-up, so every later frame is steady state
	type c16Ring struct {
		Bufs  int   `json:"bufs"`
		Order []int `json:"order"` // station per frame
		V6    []int `json:"v6"`    // stations that also speak from a link-local address
	}
	drv.Prop(t, rec, "receive-ring", 300, 6000, func(t *rapid.T) c16Ring {
		c := c16Ring{Bufs: rapid.IntRange(1, 3).Draw(t, "bufs")}
		for i := rapid.IntRange(4, 24).Draw(t, "nframes"); i > 0; i-- {
			c.Order = append(c.Order, rapid.IntRange(0, 3).Draw(t, "station"))
		}
		c.V6 = rapid.SliceOfNDistinct(rapid.IntRange(0, 3), 0, 2, func(i int) int { return i }).Draw(t, "v6")
		return c
	}, func(tb drv.TB, c c16Ring) {
		rec.Eval()
		drv.Begin("C16", "receive-ring", 'J', mustJSON(c), 30*time.Second)
		defer drv.End()
		s, _ := newSession(defaultNIC())
		defer closeSession(s)
		v6 := map[int]bool{}
		for _, k := range c.V6 {
			v6[k] = true
		}
		var frames [][]byte
		for i, st := range c.Order {
			mac := w.Clients[st%4]
			if v6[st] && i%2 == 1 {
				src := netip.MustParseAddr("fe80::70").As16()
				src[14] = byte(st)
				frames = append(frames, ref.Eth(w.RouterMAC, mac, 0x86dd, ref.IP6(ref.IP6Hdr{PayloadLen: -1, Next: 17, HopLimit: 64, Src: src, Dst: netip.MustParseAddr("ff02::fb").As16()}, ref.UDP(40000, 9999, -1, 0, []byte("x")))))
			} else {
				frames = append(frames, ref.Eth(w.RouterMAC, mac, 0x0800, ref.IP4(ref.IP4Hdr{TotalLen: -1, TTL: 64, Proto: 17, Checksum: -1, Src: [4]byte{192, 168, 0, byte(70 + st)}, Dst: [4]byte{192, 168, 0, 11}}, ref.UDP(40000, 9999, -1, 0, []byte("x")))))
			}
		}
		ring := make([][]byte, c.Bufs)
		for i := range ring {
			ring[i] = make([]byte, packet.EthMaxSize)
		}
		next := 0
		pass := func() {
			for _, f := range frames {
				b := ring[next%len(ring)]
				next++
				s.Parse(b[:copy(b, f)])
			}
		}
		pass()
		pass() // every station (and address) is tracked and online now
		before := map[int]*packet.Host{}
		for _, st := range c.Order {
			before[st] = s.FindIP(netip.AddrFrom4([4]byte{192, 168, 0, byte(70 + st)}))
		}
		measure := func() float64 { return testing.AllocsPerRun(10, pass) }
		if a := measure(); a != 0 {
			if a2, a3 := measure(), measure(); a2 != 0 && a3 != 0 {
				rec.Violation(tb, "receive-ring", "c16-allocs-ring", c, "tracked stations taking turns through a ring of %d receive buffers cost %.0f/%.0f/%.0f allocations per pass of %d frames", c.Bufs, a, a2, a3, len(frames))
				return
			}
		}
		for st, h := range before {
			if h != nil && s.FindIP(netip.AddrFrom4([4]byte{192, 168, 0, byte(70 + st)})) != h {
				rec.Violation(tb, "receive-ring", "c16-tracked-host-recreated", c, "station %d's host record was replaced while it kept sending from the same address through a ring of %d buffers", st, c.Bufs)
				return
			}
		}
		rec.Class(fmt.Sprintf("receive ring of %d buffers", c.Bufs))
		distinct := map[int]bool{}
		for _, st := range c.Order {
			distinct[st] = true
		}
		if len(distinct) >= 2 {
			rec.NonTrivial(drv.HashJSON(c), func() interface{} { return c })
		}
	})

}
