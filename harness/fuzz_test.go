//go:build verif

package harness

import (
	"testing"

	"pgregory.net/rapid"
	"verifharness/drv"
	"verifharness/gen"
)

// Native coverage-guided fuzz targets (thorough tier only). Each target feeds the
// fuzzer's bytes to the run function of an existing sub-check, so the oracle is the
// property's oracle (not only "does not crash") and a failure is written by the
// same code as a JSON replay file that `check <ID> --replay` understands.
// The seed corpus is a few dozen frames drawn from the rapid generators with fixed
// example seeds (valid inputs of every class) plus hostile constants.

func seedFrames(f *testing.F, n int, add func(b []byte)) {
	w := gen.DefaultWorld()
	for i := 0; i < n; i++ {
		fc := w.Frame(nil).Example(i)
		add(fc.Bytes)
	}
	g := rapid.Custom(func(t *rapid.T) []byte { b, _, _ := c08Frame(t, w); return b })
	for i := 0; i < n; i++ {
		b := g.Example(i)
		add(b)
	}
	for _, b := range [][]byte{{}, make([]byte, 14), make([]byte, 60), {0xff, 0xff, 0xff, 0xff, 0xff, 0xff, 0, 2, 3, 4, 5, 1, 0x81, 0x00, 0, 1, 0x88, 0xa8}} {
		add(b)
	}
}

// FuzzParse: C01 "raw" (Parse in three buffers, every accessor inside the input, capacity independence).
func FuzzParse(f *testing.F) {
	rec := drv.For("C01", c01Rule)
	seedFrames(f, 48, func(b []byte) { f.Add(b) })
	f.Fuzz(func(t *testing.T, data []byte) {
		if len(data) > 9000 {
			return
		}
		drv.Quiet()
		c01RunParse(t, rec, "raw", data)
	})
}

// FuzzViews: C01 "views" (IsValid, then every zero-argument getter by reflection).
func FuzzViews(f *testing.F) {
	rec := drv.For("C01", c01Rule)
	w := gen.DefaultWorld()
	for vi, v := range c01Views {
		name := v.name
		g := rapid.Custom(func(t *rapid.T) []byte { return w.ViewBytes(t, name) })
		for i := 0; i < 4; i++ {
			b := g.Example(i)
			f.Add(byte(vi), b)
		}
	}
	f.Fuzz(func(t *testing.T, sel byte, data []byte) {
		if len(data) > 9000 {
			return
		}
		drv.Quiet()
		c01RunView(t, rec, "views", c01Case{View: c01Views[int(sel)%len(c01Views)].name, Data: data})
	})
}

// FuzzHandlers: C08 "frames" (Parse -> Process* -> Notify; panic or no return within the watchdog budget).
func FuzzHandlers(f *testing.F) {
	rec := drv.For("C08", c08Rule)
	seedFrames(f, 64, func(b []byte) { f.Add(b, false) })
	f.Fuzz(func(t *testing.T, data []byte, four bool) {
		if len(data) > 1514 {
			return
		}
		drv.Quiet()
		times := 1
		if four {
			times = 4 // the ICMPv6 handler processes one RA in four
		}
		c08Run(t, rec, "frames", c08Case{Data: data, Times: times})
	})
}

// FuzzDecoders: C08 "decoders" (raw bytes into the exported payload decoders behind their IsValid).
func FuzzDecoders(f *testing.F) {
	rec := drv.For("C08", c08Rule)
	w := gen.DefaultWorld()
	idx := map[string]int{}
	for i, d := range c08Decoders {
		idx[d] = i
	}
	g := rapid.Custom(func(t *rapid.T) c08Case { return genC08Decoder(t, w) })
	for i := 0; i < 40; i++ {
		c := g.Example(i)
		f.Add(byte(idx[c.Dec]), []byte(c.Data))
	}
	f.Fuzz(func(t *testing.T, sel byte, data []byte) {
		if len(data) > 1500 {
			return
		}
		drv.Quiet()
		c08RunDecoder(t, rec, "decoders", c08Case{Data: data, Dec: c08Decoders[int(sel)%len(c08Decoders)]})
	})
}
