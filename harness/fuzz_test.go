//go:build verif

package harness

import (
	"net/netip"
	"testing"

	"pgregory.net/rapid"
	"verifharness/drv"
	"verifharness/gen"
	"verifharness/ref"
)

// Native coverage-guided fuzz targets (thorough tier only). Each target feeds the
// fuzzer's bytes to the run function of an existing sub-check, so the oracle is the
// property's oracle (not only "does not crash") and a failure is written by the
// same code as a JSON replay file that `check <ID> --replay` understands.
// The seed corpus is a few dozen frames drawn from the rapid generators with fixed
// example seeds (valid inputs of every class) plus hostile constants.

func seedFrames(f *testing.F, n int, add func(b []byte)) {
	w := gen.DefaultWorld()
	for i := 0; i < n; i++ {
		fc := w.Frame(nil).Example(i)
		add(fc.Bytes)
	}
	g := rapid.Custom(func(t *rapid.T) []byte { b, _, _ := c08Frame(t, w); return b })
	for i := 0; i < n; i++ {
		b := g.Example(i)
		add(b)
	}
	for _, b := range [][]byte{{}, make([]byte, 14), make([]byte, 60), {0xff, 0xff, 0xff, 0xff, 0xff, 0xff, 0, 2, 3, 4, 5, 1, 0x81, 0x00, 0, 1, 0x88, 0xa8}} {
		add(b)
	}
}

// FuzzParse: C01 "raw" (Parse in three buffers, every accessor inside the input, capacity independence).
func FuzzParse(f *testing.F) {
	rec := drv.For("C01", c01Rule)
	seedFrames(f, 48, func(b []byte) { f.Add(b) })
	f.Fuzz(func(t *testing.T, data []byte) {
		if len(data) > 9000 {
			return
		}
		drv.Quiet()
		c01RunParse(t, rec, "raw", data)
	})
}

// FuzzViews: C01 "views" (IsValid, then every zero-argument getter by reflection).
func FuzzViews(f *testing.F) {
	rec := drv.For("C01", c01Rule)
	w := gen.DefaultWorld()
	for vi, v := range c01Views {
		name := v.name
		g := rapid.Custom(func(t *rapid.T) []byte { return w.ViewBytes(t, name) })
		for i := 0; i < 4; i++ {
			b := g.Example(i)
			f.Add(byte(vi), b)
		}
	}
	f.Fuzz(func(t *testing.T, sel byte, data []byte) {
		if len(data) > 9000 {
			return
		}
		drv.Quiet()
		c01RunView(t, rec, "views", c01Case{View: c01Views[int(sel)%len(c01Views)].name, Data: data})
	})
}

// FuzzHandlers: C08 "frames" (Parse -> Process* -> Notify; panic or no return within the watchdog budget).
func FuzzHandlers(f *testing.F) {
	rec := drv.For("C08", c08Rule)
	seedFrames(f, 64, func(b []byte) { f.Add(b, false) })
	f.Fuzz(func(t *testing.T, data []byte, four bool) {
		if len(data) > 1514 {
			return
		}
		drv.Quiet()
		times := 1
		if four {
			times = 4 // the ICMPv6 handler processes one RA in four
		}
		c08Run(t, rec, "frames", c08Case{Data: data, Times: times})
	})
}

// FuzzDecoders: C08 "decoders" (raw bytes into the exported payload decoders behind their IsValid).
func FuzzDecoders(f *testing.F) {
	rec := drv.For("C08", c08Rule)
	w := gen.DefaultWorld()
	idx := map[string]int{}
	for i, d := range c08Decoders {
		idx[d] = i
	}
	g := rapid.Custom(func(t *rapid.T) c08Case { return genC08Decoder(t, w) })
	for i := 0; i < 40; i++ {
		c := g.Example(i)
		f.Add(byte(idx[c.Dec]), []byte(c.Data))
	}
	f.Fuzz(func(t *testing.T, sel byte, data []byte) {
		if len(data) > 1500 {
			return
		}
		drv.Quiet()
		c08RunDecoder(t, rec, "decoders", c08Case{Data: data, Dec: c08Decoders[int(sel)%len(c08Decoders)]})
	})
}

// FuzzNames: C08 "frames" with the fuzzer's bytes as the UDP payload of a name-traffic datagram (DNS answer to the
// host, mDNS, LLMNR, NBNS, SSDP over IPv4 or IPv6): the Ethernet / IP / UDP layers are always valid, so every
// execution reaches a name handler.
func FuzzNames(f *testing.F) {
	rec := drv.For("C08", c08Rule)
	w := gen.DefaultWorld()
	ports := [][2]uint16{{53, 40000}, {5353, 5353}, {5355, 5355}, {137, 137}, {50000, 1900}, {1900, 50000}}
	seeds := []*rapid.Generator[[]byte]{
		rapid.Custom(func(t *rapid.T) []byte { b, _, _ := gen.DNSMsg(t, gen.DNSOptions{Response: true}).Encode(1); return b }),
		rapid.Custom(func(t *rapid.T) []byte {
			b, _, _ := gen.DNSMsg(t, gen.DNSOptions{MDNS: true, Response: true}).Encode(2)
			return b
		}),
		rapid.Custom(func(t *rapid.T) []byte { b, _, _ := gen.DNSMsg(t, gen.DNSOptions{MDNS: true}).Encode(0); return b }),
		rapid.Custom(func(t *rapid.T) []byte { return gen.NBNSPayload(t) }),
		rapid.Custom(func(t *rapid.T) []byte { return gen.SSDPPayload(t) }),
		rapid.Custom(func(t *rapid.T) []byte { return gen.SSDPPayload(t) }),
	}
	for k, g := range seeds {
		for i := 0; i < 12; i++ {
			f.Add(byte(k), false, g.Example(i))
		}
	}
	f.Fuzz(func(t *testing.T, sel byte, v6 bool, payload []byte) {
		if len(payload) > 1400 {
			return
		}
		drv.Quiet()
		p := ports[int(sel)%len(ports)]
		cl := w.Clients[int(sel>>4)%len(w.Clients)]
		var fr []byte
		if v6 && p[0] != 137 {
			src := netip.MustParseAddr("fe80::7").As16()
			fr = ref.Eth(ref.MAC{0x33, 0x33, 0, 0, 0, 0xfb}, cl, 0x86dd, ref.IP6(ref.IP6Hdr{PayloadLen: -1, Next: 17, HopLimit: 255, Src: src, Dst: netip.MustParseAddr("ff02::fb").As16()}, ref.UDP(p[0], p[1], -1, 0, payload)))
		} else {
			fr = ref.Eth(ref.MAC{0xff, 0xff, 0xff, 0xff, 0xff, 0xff}, cl, 0x0800, ref.IP4(ref.IP4Hdr{TotalLen: -1, TTL: 64, Proto: 17, Checksum: -1, Src: [4]byte{192, 168, 0, 7}, Dst: w.HostIP.As4()}, ref.UDP(p[0], p[1], -1, 0, payload)))
		}
		c08Run(t, rec, "frames", c08Case{Data: fr, Times: 1})
	})
}
