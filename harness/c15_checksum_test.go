//go:build verif

package harness

import (
	"bytes"
	"net/netip"
	"strings"
	"testing"
	"time"

	"github.com/irai/packet"
	"pgregory.net/rapid"
	"verifharness/drv"
	"verifharness/gen"
	"verifharness/ref"
)

// C15 — Internet checksums are computed correctly.
//
// Oracle: ref.Checksum (RFC 1071, big-endian words). The library accumulates
// little-endian words and documents its result as "in network format already",
// i.e. the value is stored low byte first (ICMP.SetChecksum, IP4.SetPayload).
// The relation checked is therefore on the stored bytes:
//   {byte(lib), byte(lib>>8)} == {ref>>8, ref&0xff}.

const c15Rule = "byte strings (exhaustive len 0..3; every single-word perturbation of carriers of every length 0..1522; rapid strings biased to 0xff/0x00 runs and odd lengths; IPv4 headers completed by SetPayload/AppendPayload); non-trivial = length >= 2 (a carry can occur); distinct by hash of the bytes"

type c15Case struct {
	Data drv.Hex `json:"data"`
}

func c15Stored(v uint16) [2]byte { return [2]byte{byte(v), byte(v >> 8)} }
func c15Want(b []byte) [2]byte {
	r := ref.Checksum(b)
	return [2]byte{byte(r >> 8), byte(r)}
}

func c15Check(tb drv.TB, rec *drv.Rec, sub string, b []byte) {
	rec.Eval()
	var got uint16
	// the bytes are summed where a message lies in practice: inside a larger buffer (spare capacity behind the slice);
	// computing a checksum reads its input, it never writes - neither the input nor what lies behind it
	room := make([]byte, len(b)+8)
	copy(room, b)
	for i := len(b); i < len(room); i++ {
		room[i] = 0xa5
	}
	in := room[:len(b)]
	if p, sig, _ := drv.Catch(func() { got = packet.Checksum(in) }); p != nil {
		rec.Violation(tb, sub, sig, c15Case{b}, "Checksum panicked on %d bytes: %v", len(b), p)
		return
	}
	if !bytes.Equal(room[:len(b)], b) || !bytes.Equal(room[len(b):], []byte{0xa5, 0xa5, 0xa5, 0xa5, 0xa5, 0xa5, 0xa5, 0xa5}) {
		rec.Violation(tb, sub, "checksum-writes-its-input", c15Case{b}, "Checksum(%d bytes) changed the buffer it was given: now % x followed by % x", len(b), room[:min(len(b), 16)], room[len(b):])
		return
	}
	if c15Stored(got) != c15Want(b) {
		rec.Violation(tb, sub, "checksum-mismatch", c15Case{b}, "Checksum(%d bytes) stores % x, RFC 1071 gives % x", len(b), c15Stored(got), c15Want(b))
		return
	}
	if len(b) >= 2 {
		rec.NonTrivial(drv.HashBytes(b), func() interface{} { return c15Case{append([]byte(nil), b...)} })
	}
}

func TestC15(t *testing.T) {
	rec := drv.For("C15", c15Rule)

	// (1) exhaustive over every byte string of length 0..3
	t.Run("exhaustive-len0-3", func(t *testing.T) {
		if drv.Replay != "" {
			return
		}
		drv.Quiet()
		var buf [3]byte
		idx := 0
		for n := 0; n <= 3; n++ {
			total := 1 << (8 * uint(n))
			for v := 0; v < total; v++ {
				idx++
				if idx%drv.NShards != drv.Shard {
					continue
				}
				buf[0], buf[1], buf[2] = byte(v), byte(v>>8), byte(v>>16)
				c15Check(t, rec, "exhaustive-len0-3", buf[:n])
			}
		}
		rec.Exhaustive("all byte strings of length 0..3", true)
	})

	// (2) single-word perturbations of carriers of every length
	type carrierCase struct {
		Len     int  `json:"len"`
		Pattern byte `json:"pattern"` // 0: zeros, 1: 0xff, 2: counting, 3: 0xff00 words, 4.. : mixed by seed
	}
	mkCarrier := func(c carrierCase) []byte {
		b := make([]byte, c.Len)
		for i := range b {
			switch c.Pattern {
			case 0:
				b[i] = 0
			case 1:
				b[i] = 0xff
			case 2:
				b[i] = byte(i)
			case 3:
				if i%2 == 0 {
					b[i] = 0xff
				}
			default:
				b[i] = byte(drv.Mix(uint64(c.Pattern)<<32 | uint64(i)))
			}
		}
		return b
	}
	values := [][2]byte{{0, 0}, {0, 1}, {0, 0xff}, {0xff, 0}, {0xff, 0xfe}, {0xff, 0xff}}
	nCarriers := drv.N(64, 2000)
	// carriers: lengths are spread over 0..1522 so that every length is hit in the thorough tier
	drv.Enum(t, rec, "carriers", nCarriers, func(i int) carrierCase {
		ln := i % 1523
		if nCarriers < 1523 {
			ln = (i*1523/nCarriers + int(drv.Seed%7)) % 1523
		}
		return carrierCase{Len: ln, Pattern: byte(i % 9)}
	}, func(tb drv.TB, c carrierCase) {
		b := mkCarrier(c)
		c15Check(tb, rec, "carriers", b)
		for w := 0; w+1 < len(b); w += 2 {
			o0, o1 := b[w], b[w+1]
			for _, v := range values {
				b[w], b[w+1] = v[0], v[1]
				c15Check(tb, rec, "carriers", b)
			}
			b[w], b[w+1] = o0, o1
		}
		if len(b)%2 == 1 { // odd tail byte
			o := b[len(b)-1]
			for _, v := range []byte{0, 1, 0x7f, 0x80, 0xff} {
				b[len(b)-1] = v
				c15Check(tb, rec, "carriers", b)
			}
			b[len(b)-1] = o
		}
	})

	// (3) rapid strings of every length, biased
	genBytes := rapid.Custom(func(t *rapid.T) []byte {
		n := rapid.OneOf(rapid.IntRange(0, 64), rapid.IntRange(0, 1522), rapid.SampledFrom([]int{0, 1, 2, 3, 19, 20, 21, 1499, 1500, 1501, 1521, 1522})).Draw(t, "len")
		mode := rapid.IntRange(0, 3).Draw(t, "mode")
		b := make([]byte, n)
		switch mode {
		case 0:
			for i := range b {
				b[i] = rapid.Byte().Draw(t, "b")
			}
		case 1: // runs of ff / 00
			i := 0
			for i < n {
				run := rapid.IntRange(1, 40).Draw(t, "run")
				v := rapid.SampledFrom([]byte{0x00, 0xff, 0xfe, 0x01}).Draw(t, "v")
				for k := 0; k < run && i < n; k++ {
					b[i] = v
					i++
				}
			}
		case 2: // mostly ff with a few random bytes
			for i := range b {
				b[i] = 0xff
			}
			for k := rapid.IntRange(0, 6).Draw(t, "k"); k > 0 && n > 0; k-- {
				b[rapid.IntRange(0, n-1).Draw(t, "pos")] = rapid.Byte().Draw(t, "b")
			}
		case 3:
			seed := rapid.Uint64().Draw(t, "seed")
			for i := range b {
				b[i] = byte(drv.Mix(seed + uint64(i)))
			}
		}
		return b
	})
	drv.Prop(t, rec, "random", 20000, 400000, func(t *rapid.T) c15Case { return c15Case{genBytes.Draw(t, "data")} },
		func(tb drv.TB, c c15Case) { c15Check(tb, rec, "random", c.Data) })

	// (4) metamorphic relations on the library function itself
	type splitCase struct {
		A drv.Hex `json:"a"` // even length
		B drv.Hex `json:"b"`
	}
	drv.Prop(t, rec, "metamorphic", 10000, 200000, func(t *rapid.T) splitCase {
		a := genBytes.Draw(t, "a")
		if len(a)%2 == 1 {
			a = a[:len(a)-1]
		}
		return splitCase{a, genBytes.Draw(t, "b")}
	}, func(tb drv.TB, c splitCase) {
		rec.Eval()
		whole := append(append([]byte(nil), c.A...), c.B...)
		// one's-complement additivity over an even split (in the library's own byte order)
		sa, sb, sw := ^packet.Checksum(c.A), ^packet.Checksum(c.B), ^packet.Checksum(whole)
		if got := ref.OnesAdd(sa, sb); got != sw && !(got == 0xffff && sw == 0) && !(got == 0 && sw == 0xffff) {
			rec.Violation(tb, "metamorphic", "split-additivity", c, "sum(a||b)=%04x but sum(a)+'sum(b)=%04x", sw, got)
			return
		}
		// inserting the checksum makes the independent sum verify: data = 2 checksum bytes (zero) + payload
		msg := append([]byte{0, 0}, whole...)
		cs := packet.Checksum(msg)
		msg[0], msg[1] = byte(cs), byte(cs>>8) // the order ICMP.SetChecksum stores it
		if !ref.Verifies(msg) {
			rec.Violation(tb, "metamorphic", "insert-verifies", c, "message with inserted checksum % x does not verify under RFC 1071 (residual %04x)", msg[:2], ref.Checksum(msg))
			return
		}
		if len(whole) >= 2 {
			rec.NonTrivial(drv.HashBytes(c.A, c.B, []byte{1}), func() interface{} { return c })
		}
	})

	// (5) IPv4 headers completed by SetPayload / AppendPayload verify
	type ip4Case struct {
		TTL     byte    `json:"ttl"`
		Src     string  `json:"src"`
		Dst     string  `json:"dst"`
		Proto   byte    `json:"proto"`
		Payload drv.Hex `json:"payload"`
		Append  bool    `json:"append"`
		Junk    byte    `json:"junk"` // pre-existing buffer content
		// the same header completed again (new length / protocol), as when a buffer is re-used for the next packet
		Again []struct {
			Len    int  `json:"len"`
			Proto  byte `json:"proto"`
			Append bool `json:"append"`
		} `json:"again,omitempty"`
	}
	genIP4 := func(t *rapid.T) string {
		var a [4]byte
		switch rapid.IntRange(0, 3).Draw(t, "ipclass") {
		case 0:
			a = [4]byte{192, 168, 0, byte(rapid.IntRange(0, 255).Draw(t, "h"))}
		case 1:
			a = [4]byte{255, 255, 255, 255}
		case 2:
			a = [4]byte{}
		default:
			for i := range a {
				a[i] = rapid.Byte().Draw(t, "o")
			}
		}
		return netip.AddrFrom4(a).String()
	}
	drv.Prop(t, rec, "ip4-header", 10000, 200000, func(t *rapid.T) ip4Case {
		n := rapid.OneOf(rapid.IntRange(0, 40), rapid.IntRange(0, 1480), rapid.SampledFrom([]int{0, 1, 1479, 1480})).Draw(t, "plen")
		p := make([]byte, n)
		seed := rapid.Uint64().Draw(t, "pseed")
		for i := range p {
			p[i] = byte(drv.Mix(seed + uint64(i)))
		}
		c := ip4Case{TTL: rapid.Byte().Draw(t, "ttl"), Src: genIP4(t), Dst: genIP4(t), Proto: rapid.Byte().Draw(t, "proto"),
			Payload: p, Append: rapid.Bool().Draw(t, "append"), Junk: rapid.Byte().Draw(t, "junk")}
		for k := rapid.IntRange(0, 3).Draw(t, "nagain"); k > 0; k-- {
			c.Again = append(c.Again, struct {
				Len    int  `json:"len"`
				Proto  byte `json:"proto"`
				Append bool `json:"append"`
			}{rapid.OneOf(rapid.IntRange(0, 40), rapid.IntRange(0, 1480)).Draw(t, "alen"), rapid.Byte().Draw(t, "aproto"), rapid.Bool().Draw(t, "aappend")})
		}
		return c
	}, func(tb drv.TB, c ip4Case) {
		rec.Eval()
		buf := make([]byte, packet.EthMaxSize)
		for i := range buf {
			buf[i] = c.Junk
		}
		var hdr []byte
		p, sig, _ := drv.Catch(func() {
			// callers pass Ether.Payload() of a header-only frame: the whole spare buffer
			ip := packet.EncodeIP4(buf[14:], c.TTL, netip.MustParseAddr(c.Src), netip.MustParseAddr(c.Dst))
			if c.Append {
				var err error
				if ip, err = ip.AppendPayload(c.Payload, c.Proto); err != nil {
					panic("AppendPayload: " + err.Error())
				}
			} else {
				copy(buf[14+20:], c.Payload) // SetPayload does not copy: the payload is already in place
				ip = ip.SetPayload(buf[14+20:14+20+len(c.Payload)], c.Proto)
			}
			hdr = append([]byte(nil), ip[:20]...)
			for _, a := range c.Again {
				if !ref.Verifies(ip[:20]) {
					return // reported below through hdr
				}
				pl := make([]byte, a.Len)
				h20 := ip[:20:cap(ip)]
				if a.Append {
					var err error
					if ip, err = h20.AppendPayload(pl, a.Proto); err != nil {
						panic("AppendPayload: " + err.Error())
					}
				} else {
					ip = h20.SetPayload(buf[14+20:14+20+a.Len], a.Proto)
				}
				hdr = append([]byte(nil), ip[:20]...)
			}
		})
		if p != nil {
			rec.Violation(tb, "ip4-header", sig, c, "IPv4 encode panicked: %v", p)
			return
		}
		if !ref.Verifies(hdr) {
			rec.Violation(tb, "ip4-header", "ip4-header-checksum", c, "IPv4 header % x does not verify (residual %04x)", hdr, ref.Checksum(hdr))
			return
		}
		rec.NonTrivial(drv.HashJSON(c), func() interface{} { return c })
	})
	// (6) messages completed by the send functions, several in a row on one session (the transmit and scratch
	// buffers are pooled: what the previous message left behind must not leak into the next checksum)
	type sendCase struct {
		Sends []struct {
			K   string `json:"k"` // echo4 echo6 ns na rs ra
			A   int    `json:"a"`
			ID  uint16 `json:"id"`
			Seq uint16 `json:"seq"`
		} `json:"sends"`
		Log int `json:"log,omitempty"` // 0 info, 1 errors only, 2 debug traces
	}
	drv.Prop(t, rec, "send-functions", 400, 12000, func(t *rapid.T) sendCase {
		var c sendCase
		for i := rapid.IntRange(2, 12).Draw(t, "nsends"); i > 0; i-- {
			c.Sends = append(c.Sends, struct {
				K   string `json:"k"`
				A   int    `json:"a"`
				ID  uint16 `json:"id"`
				Seq uint16 `json:"seq"`
			}{rapid.SampledFrom([]string{"echo4", "echo4", "echo6", "echo6", "ns", "na", "rs", "ra"}).Draw(t, "k"), rapid.IntRange(0, 7).Draw(t, "a"), rapid.Uint16().Draw(t, "id"), rapid.Uint16().Draw(t, "seq")})
		}
		c.Log = rapid.SampledFrom([]int{0, 0, 1, 2, 2}).Draw(t, "log")
		return c
	}, func(tb drv.TB, c sendCase) {
		rec.Eval()
		drv.Begin("C15", "send-functions", 'J', mustJSON(c), 20*time.Second)
		defer drv.End()
		defer setLogLevel(c.Log)()
		rec.Class("send functions: log level " + string(rune('0'+c.Log)))
		w := gen.DefaultWorld()
		s, conn := newSession(defaultNIC())
		defer closeSession(s)
		host4 := packet.Addr{MAC: hw(w.HostMAC), IP: w.HostIP}
		host6 := packet.Addr{MAC: hw(w.HostMAC), IP: w.HostLLA}
		for i, sd := range c.Sends {
			cl := w.Clients[sd.A%4]
			dst4 := packet.Addr{MAC: hw(cl), IP: netip.AddrFrom4([4]byte{192, 168, 0, byte(40 + sd.A)})}
			switch sd.A { // group and broadcast destinations (ping-all): the header checksum covers whatever TTL these are sent with
			case 4:
				dst4 = packet.Addr{MAC: hw(ref.MAC{0x01, 0x00, 0x5e, 0, 0, 1}), IP: netip.MustParseAddr("224.0.0.1")}
			case 5:
				dst4 = packet.Addr{MAC: hw(ref.MAC{0xff, 0xff, 0xff, 0xff, 0xff, 0xff}), IP: netip.MustParseAddr("255.255.255.255")}
			case 6:
				dst4 = packet.Addr{MAC: hw(ref.MAC{0xff, 0xff, 0xff, 0xff, 0xff, 0xff}), IP: netip.MustParseAddr("192.168.0.255")}
			case 7:
				dst4 = packet.Addr{MAC: hw(ref.MAC{0x01, 0x00, 0x5e, 0, 0, 2}), IP: netip.MustParseAddr("224.0.0.2")}
			}
			lla := netip.MustParseAddr("fe80::40").As16()
			lla[15] = byte(0x40 + sd.A)
			dst6 := packet.Addr{MAC: hw(cl), IP: netip.AddrFrom16(lla)}
			if p, sig, st := drv.Catch(func() {
				switch sd.K {
				case "echo4":
					s.ICMP4SendEchoRequest(host4, dst4, sd.ID, sd.Seq)
				case "echo6":
					s.ICMP6SendEchoRequest(host6, dst6, sd.ID, sd.Seq)
				case "ns":
					s.ICMP6SendNeighbourSolicitation(host6, dst6, dst6.IP)
				case "na":
					s.ICMP6SendNeighborAdvertisement(host6, dst6, host6)
				case "rs":
					s.ICMP6SendRouterSolicitation()
				case "ra":
					// 1..16 prefixes: from the seventh on the message is longer than 256 bytes, with 16 longer than 512
					var pfx []packet.PrefixInformation
					for k := []int{1, 2, 6, 7, 9, 16, 1, 3}[sd.A%8]; k > 0; k-- {
						pfx = append(pfx, packet.PrefixInformation{PrefixLength: 64, OnLink: true, AutonomousAddressConfiguration: true, ValidLifetime: time.Duration(sd.ID) * time.Second, PreferredLifetime: time.Duration(sd.Seq) * time.Second, Prefix: netip.AddrFrom16([16]byte{0x20, 0x01, 0x0d, 0xb8, byte(k), byte(sd.ID), byte(sd.Seq)}).AsSlice()})
					}
					s.ICMP6SendRouterAdvertisement(pfx, nil, packet.Addr{MAC: hw(ref.MAC{0x33, 0x33, 0, 0, 0, 1}), IP: netip.MustParseAddr("ff02::1")})
				}
			}); p != nil {
				rec.Violation(tb, "send-functions", sig, c, "send %d (%s) panicked: %v\n%s", i, sd.K, p, st)
				return
			}
			for _, f := range conn.Take() {
				_, sig, msg := decodeSent(f.B, w.HostMAC, true)
				if strings.Contains(sig, "checksum") {
					rec.Violation(tb, "send-functions", "send-"+sig, c, "send %d (%s): %s", i, sd.K, msg)
					return
				}
			}
		}
		rec.NonTrivial(drv.HashJSON(c), func() interface{} { return c })
	})

}
