//go:build verif

package harness

import (
	"fmt"
	"net/netip"
	"testing"
	"time"

	"github.com/irai/packet"

	"pgregory.net/rapid"
	"verifharness/drv"
	"verifharness/gen"
	"verifharness/ref"
)

// C04 — host tracking follows the discovery, IP-change and ageing rules (model comparison)
// C05 — host and MAC tables stay mutually consistent (structural invariants)
// C06 — notifications report every transition exactly once (transcript comparison)

const c04Rule = "histories of IPv4/IPv6/ARP frames (own, router, multicast, client MACs; on-LAN, off-LAN, zero, broadcast, link-local, global, multicast sources; forged ARP sender), DHCP updates, name updates, virtual-time advances and purges: every sequence up to a bounded depth over a 15-symbol alphabet on a fresh session (exhaustive) plus rapid-drawn sequences of 5..60 ops over the full universe, 3 LAN prefixes and 3 deadline triples; after every op the query API is compared with a reference model; sub-check many-stations: 17..250 silent stations, purge past OfflineDeadline (all offline), up to 5 heard again, purge past PurgeDeadline (all others removed with their MAC entries in that pass); one history in four runs with the notification channel full and unread. non-trivial = the history contains an IPv4 change of a MAC, a re-binding, a purge that changes state, or a frame from an excluded source; distinct by hash of the op list"

// the 15-symbol alphabet of the bounded-exhaustive sweep
var c04Alphabet = []hOp{
	{K: "f4", Src: mC1, IP: i4A},
	{K: "f4", Src: mC1, IP: i4B},
	{K: "f4", Src: mC2, IP: i4A},
	{K: "f4", Src: mC2, IP: i4C},
	{K: "f6", Src: mC1, IP: 0},
	{K: "f6", Src: mC1, IP: 2},
	{K: "f6", Src: mRouter, IP: 3},
	{K: "arp", Src: mC2, SHA: mC2, IP: i4B},
	{K: "arp", Src: mC1, SHA: mC3, IP: i4C},
	{K: "f4", Src: mOwn, IP: i4A},
	{K: "f4", Src: mC3, IP: i4Off},
	{K: "dhcp", Src: mC1, IP: i4Zero, New: i4C, Name: "n1"},
	{K: "adv", D: 2},
	{K: "adv", D: 4},
	{K: "purge"},
}

// C06 uses name updates instead of some of the exclusion symbols
var c06Alphabet = []hOp{
	{K: "f4", Src: mC1, IP: i4A},
	{K: "f4", Src: mC1, IP: i4B},
	{K: "f4", Src: mC2, IP: i4A},
	{K: "f6", Src: mC1, IP: 0},
	{K: "f6", Src: mC1, IP: 2},
	{K: "arp", Src: mC2, SHA: mC2, IP: i4B},
	{K: "f4", Src: mRouter, IP: i4Router},
	{K: "dhcp", Src: mC1, IP: i4Zero, New: i4C, Name: "n1"},
	{K: "dhcp", Src: mC1, IP: i4Zero, New: i4A, Name: "n2"},
	{K: "name", Src: mC1, IP: i4A, NSrc: 1, Name: "m1"},
	{K: "name", Src: mC1, IP: i4A, NSrc: 1, Name: "m2"},
	{K: "name", Src: mC1, IP: 0, V6: true, NSrc: 3, Name: "l1"},
	{K: "adv", D: 2},
	{K: "adv", D: 4},
	{K: "purge"},
}

func enumHistory(alpha []hOp, depth, i int) history {
	h := history{}
	for d := 0; d < depth; d++ {
		h.Ops = append(h.Ops, alpha[i%len(alpha)])
		i /= len(alpha)
	}
	return h
}

func pow(b, e int) int {
	r := 1
	for ; e > 0; e-- {
		r *= b
	}
	return r
}

func genHistory(t *rapid.T, withNames, withTableOps bool) history {
	h := history{Cfg: histCfg{LAN: rapid.IntRange(0, 2).Draw(t, "lan"), Timing: rapid.IntRange(0, 2).Draw(t, "timing"), Quiet: rapid.SampledFrom([]int{0, 0, 1, 2}).Draw(t, "quiet"), Full: rapid.IntRange(0, 3).Draw(t, "full") == 0}}
	n := rapid.IntRange(5, 60).Draw(t, "nops")
	clientish := []int{mC1, mC1, mC2, mC2, mC3, mC4, mC6, mRouter}
	anyMAC := []int{mC1, mC1, mC1, mC2, mC2, mC3, mC4, mC5, mC6, mC6, mC7, mRouter, mOwn, mMcast}
	ip4s := []int{i4A, i4A, i4B, i4B, i4C, i4Host, i4Router, i4Off, i4Zero, i4Bcast}
	names := []string{"", "n1", "n2", "a-much-longer-host-name", "n1.", "N1", "printer.example.com."} // incl. a trailing dot and a case twin: other names, byte for byte
	for i := 0; i < n; i++ {
		kinds := []string{"f4", "f4", "f4", "f6", "f6", "arp", "dhcp", "adv", "adv", "purge", "purge"}
		if withNames {
			kinds = append(kinds, "name", "name")
		}
		if withTableOps {
			kinds = append(kinds, "offer", "capture", "release")
		}
		op := hOp{K: rapid.SampledFrom(kinds).Draw(t, "k")}
		switch op.K {
		case "f4":
			op.Src, op.IP = rapid.SampledFrom(anyMAC).Draw(t, "src"), rapid.SampledFrom(ip4s).Draw(t, "ip")
		case "f6":
			op.Src, op.IP = rapid.SampledFrom(anyMAC).Draw(t, "src"), rapid.IntRange(0, len(hIP6)-1).Draw(t, "ip6")
		case "arp":
			op.Src, op.IP = rapid.SampledFrom(anyMAC).Draw(t, "src"), rapid.SampledFrom(ip4s).Draw(t, "ip")
			op.SHA = op.Src
			if rapid.IntRange(0, 3).Draw(t, "forged") == 0 {
				op.SHA = rapid.SampledFrom(anyMAC).Draw(t, "sha")
			}
		case "dhcp":
			op.Src = rapid.SampledFrom(clientish).Draw(t, "src")
			op.IP = i4Zero
			if rapid.IntRange(0, 4).Draw(t, "renew") == 0 {
				op.IP = rapid.SampledFrom([]int{i4A, i4B, i4C, i4Off}).Draw(t, "srcip") // renew / rebind: the frame has a source address (i4Off: a roaming client still using an address of another network)
			}
			op.New = rapid.SampledFrom([]int{i4A, i4B, i4C, i4C, i4Off, i4Zero, i4Router}).Draw(t, "new")
			op.Name = rapid.SampledFrom(names).Draw(t, "name")
		case "name":
			op.Src = rapid.SampledFrom(clientish).Draw(t, "src")
			op.V6 = rapid.Bool().Draw(t, "v6")
			if op.V6 {
				op.IP = rapid.IntRange(0, 3).Draw(t, "ip6")
			} else {
				op.IP = rapid.SampledFrom([]int{i4A, i4B, i4C}).Draw(t, "ip")
			}
			op.NSrc, op.Name = rapid.IntRange(0, 4).Draw(t, "nsrc"), rapid.SampledFrom(names).Draw(t, "name")
			op.Exp = rapid.SampledFrom([]int{0, 0, 1, 2, 3}).Draw(t, "exp")
		case "adv":
			op.D = rapid.IntRange(0, 5).Draw(t, "d")
		case "offer":
			op.Src, op.New, op.Name = rapid.SampledFrom(clientish).Draw(t, "src"), rapid.SampledFrom([]int{i4A, i4B, i4C}).Draw(t, "new"), rapid.SampledFrom(names).Draw(t, "name")
		case "capture", "release":
			op.Src = rapid.SampledFrom(clientish).Draw(t, "src")
		}
		h.Ops = append(h.Ops, op)
	}
	return h
}

func histNonTrivial(r histResult) bool {
	return r.IPChange || r.Rebind || r.PurgeChanged || r.Excluded
}

func runHist(tb drv.TB, rec *drv.Rec, prop, sub string, h history, or histOracles, nontrivial func(histResult) bool) {
	rec.Eval()
	drv.Begin(prop, sub, 'J', mustJSON(h), 30*time.Second)
	defer drv.End()
	res := runHistory(tb, rec, sub, h, or)
	if res.IPChange {
		rec.Class("history with IPv4 change")
	}
	if res.Rebind {
		rec.Class("history with re-binding")
	}
	if res.PurgeChanged {
		rec.Class("history with state-changing purge")
	}
	if res.Shrunk {
		rec.Class("history in which a host was removed")
	}
	if res.NameChange {
		rec.Class("history with a name change")
	}
	if nontrivial(res) {
		rec.NonTrivial(drv.HashJSON(h), func() interface{} { return map[string]interface{}{"cfg": h.Cfg, "ops": histString(h)} })
	}
}

func TestC04(t *testing.T) {
	rec := drv.For("C04", c04Rule)
	or := histOracles{Tables: true}
	depth := drv.N(4, 5)
	drv.Enum(t, rec, "exhaustive", pow(len(c04Alphabet), depth), func(i int) history { return enumHistory(c04Alphabet, depth, i) },
		func(tb drv.TB, h history) { runHist(tb, rec, "C04", "exhaustive", h, or, histNonTrivial) })
	rec.Note("exhaustive: every sequence of length " + string(rune('0'+depth)) + " over the 15-symbol alphabet (fresh session each)")
	drv.Prop(t, rec, "random", 4000, 100000, func(t *rapid.T) history { return genHistory(t, false, false) },
		func(tb drv.TB, h history) { runHist(tb, rec, "C04", "random", h, or, histNonTrivial) })
	// the ageing rules at the scale of a real LAN: 17..250 stations (the small universe above never holds more than a
	// dozen hosts), all silent, some heard again between the two purges. Every one must go offline at the first purge
	// after OfflineDeadline and be removed - with its MAC entry - at the first purge after PurgeDeadline, in that very
	// pass, unless it was heard again.
	type manyCase struct {
		N     int   `json:"n"`
		V6    int   `json:"v6"`    // every V6-th station also has a link-local host (0 = none)
		Again []int `json:"again"` // stations heard again after the first purge
	}
	drv.Prop(t, rec, "many-stations", 150, 3000, func(t *rapid.T) manyCase {
		c := manyCase{N: rapid.SampledFrom([]int{17, 18, 33, 64, 65, 129, 200, 250}).Draw(t, "n"), V6: rapid.SampledFrom([]int{0, 1, 2, 5}).Draw(t, "v6")}
		c.Again = rapid.SliceOfNDistinct(rapid.IntRange(0, c.N-1), 0, 5, func(i int) int { return i }).Draw(t, "again")
		return c
	}, func(tb drv.TB, c manyCase) {
		rec.Eval()
		drv.Begin("C04", "many-stations", 'J', mustJSON(c), 60*time.Second)
		defer drv.End()
		w := gen.DefaultWorld()
		s, _ := newSession(defaultNIC())
		defer closeSession(s)
		mac := func(i int) ref.MAC { return ref.MAC{0x00, 0x02, 0x03, 0x10, byte(i >> 8), byte(i)} }
		ip4 := func(i int) netip.Addr { return netip.AddrFrom4([4]byte{192, 168, 0, byte(2 + i)}) } // .2 .. .251 (router .11 and host .129 are skipped below)
		lla := func(i int) netip.Addr {
			a := netip.MustParseAddr("fe80::1:0").As16()
			a[14], a[15] = byte(i>>8), byte(i)
			return netip.AddrFrom16(a)
		}
		skip := func(i int) bool { return ip4(i) == w.RouterIP || ip4(i) == w.HostIP }
		buf := make([]byte, packet.EthMaxSize)
		hear := func(i int) {
			f := ref.Eth(w.RouterMAC, mac(i), 0x0800, ref.IP4(ref.IP4Hdr{TotalLen: -1, TTL: 64, Proto: 17, Checksum: -1, Src: ip4(i).As4(), Dst: w.RouterIP.As4()}, ref.UDP(40000, 9999, -1, 0, []byte("x"))))
			s.Parse(buf[:copy(buf, f)])
			if c.V6 > 0 && i%c.V6 == 0 {
				f = ref.Eth(w.RouterMAC, mac(i), 0x86dd, ref.IP6(ref.IP6Hdr{PayloadLen: -1, Next: 17, HopLimit: 64, Src: lla(i).As16(), Dst: netip.MustParseAddr("ff02::fb").As16()}, ref.UDP(40000, 9999, -1, 0, []byte("x"))))
				s.Parse(buf[:copy(buf, f)])
			}
		}
		for i := 0; i < c.N; i++ {
			if !skip(i) {
				hear(i)
			}
		}
		drain := func() {
			for len(s.C) > 0 {
				<-s.C
			}
		}
		drain()
		fail := func(sig, format string, args ...interface{}) {
			rec.Violation(tb, "many-stations", sig, c, format, args...)
		}
		state := func(i int) (present, online, macEntry bool) {
			h := s.FindIP(ip4(i))
			if h != nil {
				h.MACEntry.Row.RLock()
				present, online = true, h.Online
				h.MACEntry.Row.RUnlock()
			}
			return present, online, s.FindMACEntry(hw(mac(i))) != nil
		}
		t0 := time.Now()
		if p, sig, st := drv.Catch(func() { s.VerifPurge(t0.Add(s.OfflineDeadline + time.Second)) }); p != nil {
			fail(sig, "purge panicked: %v\n%s", p, st)
			return
		}
		waitNoGoroutine(2*time.Second, "packet.(*Session).purge.func")
		drain()
		for i := 0; i < c.N; i++ {
			if skip(i) {
				continue
			}
			if present, online, _ := state(i); !present || online {
				fail("c04-many-offline", "station %d of %d (silent past OfflineDeadline) after the purge: tracked=%v online=%v, want tracked and offline", i, c.N, present, online)
				return
			}
		}
		again := map[int]bool{}
		for _, i := range c.Again {
			if !skip(i) {
				again[i] = true
				hear(i)
			}
		}
		drain()
		if p, sig, st := drv.Catch(func() { s.VerifPurge(t0.Add(s.PurgeDeadline + 2*time.Second)) }); p != nil {
			fail(sig, "purge panicked: %v\n%s", p, st)
			return
		}
		waitNoGoroutine(2*time.Second, "packet.(*Session).purge.func")
		drain()
		left := 0
		for i := 0; i < c.N; i++ {
			if skip(i) {
				continue
			}
			present, _, me := state(i)
			if again[i] != present || again[i] != me {
				fail("c04-many-purge", "station %d of %d after the purge past PurgeDeadline: tracked=%v MAC entry=%v, heard again=%v (want removed together with its MAC entry exactly when it stayed silent)", i, c.N, present, me, again[i])
				return
			}
			if v6h := s.FindIP(lla(i)); (v6h != nil) != (again[i] && c.V6 > 0 && i%c.V6 == 0) {
				fail("c04-many-purge-v6", "station %d of %d: link-local host tracked=%v after the purge, heard again=%v", i, c.N, v6h != nil, again[i])
				return
			}
			if present {
				left++
			}
		}
		rec.Class(fmt.Sprintf("many-stations: %d stations", c.N))
		rec.NonTrivial(drv.HashJSON(c), func() interface{} {
			return map[string]interface{}{"stations": c.N, "heard_again": len(again), "left": left}
		})
	})
}

const c05Rule = "the C04/C06 histories extended with SetDHCPv4IPOffer, Capture and Release, biased to structure-changing operations (several IPs on one MAC, re-binding chains, purge orders); after every op the exported tables are walked: index key = host IP, back-pointers, MAC uniqueness, host-list membership exactly once, online host implies online MAC, and PrintTable must not panic. non-trivial = a history in which the number of hosts decreased; distinct by hash of the op list"

func TestC05(t *testing.T) {
	rec := drv.For("C05", c05Rule)
	or := histOracles{Invar: true}
	nt := func(r histResult) bool { return r.Shrunk || r.Rebind }
	depth := drv.N(3, 4)
	drv.Enum(t, rec, "exhaustive", pow(len(c04Alphabet), depth), func(i int) history { return enumHistory(c04Alphabet, depth, i) },
		func(tb drv.TB, h history) { runHist(tb, rec, "C05", "exhaustive", h, or, nt) })
	drv.Prop(t, rec, "random", 5000, 120000, func(t *rapid.T) history { return genHistory(t, true, true) },
		func(tb drv.TB, h history) { runHist(tb, rec, "C05", "random", h, or, nt) })
	// delete-of-middle-element and re-binding chains, explicitly
	drv.Prop(t, rec, "chains", 2000, 40000, func(t *rapid.T) history {
		h := history{Cfg: histCfg{Timing: 1}}
		// three IPv6 + IPv4 addresses on one MAC, then age them out in a drawn order, with re-binding in between
		for _, ip := range rapid.Permutation([]int{0, 1, 2, 3, 6}).Draw(t, "order") {
			h.Ops = append(h.Ops, hOp{K: "f6", Src: mC1, IP: ip})
			if rapid.Bool().Draw(t, "gap") {
				h.Ops = append(h.Ops, hOp{K: "adv", D: rapid.IntRange(0, 5).Draw(t, "d")})
			}
		}
		for i := rapid.IntRange(1, 6).Draw(t, "moves"); i > 0; i-- {
			h.Ops = append(h.Ops, hOp{K: "f4", Src: rapid.SampledFrom([]int{mC1, mC2, mC3}).Draw(t, "mover"), IP: rapid.SampledFrom([]int{i4A, i4B}).Draw(t, "ip")})
			switch rapid.IntRange(0, 3).Draw(t, "then") {
			case 0:
				h.Ops = append(h.Ops, hOp{K: "adv", D: rapid.IntRange(1, 5).Draw(t, "d")}, hOp{K: "purge"})
			case 1:
				h.Ops = append(h.Ops, hOp{K: "purge"})
			}
		}
		h.Ops = append(h.Ops, hOp{K: "adv", D: 2}, hOp{K: "purge"}, hOp{K: "adv", D: 4}, hOp{K: "purge"})
		return h
	}, func(tb drv.TB, h history) { runHist(tb, rec, "C05", "chains", h, or, nt) })
}

const c06Rule = "the C04 histories with Notify after every Parse (a DHCP step = Parse, DHCPv4Update as the DHCP handler issues it, Notify; a name step = Parse, Host.Update*Name, Notify) and the channel drained after every step; the drained notifications are compared with the transcript the statement prescribes (first sighting / return from offline -> one online; ageing -> one offline; IPv4 change -> offline of the superseded address before the online; name change -> one notification; otherwise silence; content = tracked state). non-trivial = the model expects at least one offline notification; distinct by hash of the op list"

func TestC06(t *testing.T) {
	rec := drv.For("C06", c06Rule)
	or := histOracles{Notes: true}
	nt := func(r histResult) bool { return r.OfflineNote }
	depth := drv.N(4, 5)
	drv.Enum(t, rec, "exhaustive", pow(len(c06Alphabet), depth), func(i int) history { return enumHistory(c06Alphabet, depth, i) },
		func(tb drv.TB, h history) { runHist(tb, rec, "C06", "exhaustive", h, or, nt) })
	drv.Prop(t, rec, "random", 4000, 100000, func(t *rapid.T) history {
		h := genHistory(t, true, false)
		// a DHCP update on a frame that has a tracked source of its own is a listed finding: excluded by construction
		if rec.IsKnown("c06-transcript:dhcp-update-on-frame-from-tracked-source") {
			for i := range h.Ops {
				if h.Ops[i].K == "dhcp" && h.Ops[i].IP != i4Zero && h.Ops[i].IP != h.Ops[i].New {
					h.Ops[i].IP = i4Zero
					rec.Excluded("dhcp update on a frame from a tracked source (known finding)")
				}
			}
		}
		return h
	}, func(tb drv.TB, h history) { runHist(tb, rec, "C06", "random", h, or, nt) })
	// the known-finding shape keeps being exercised on its own (it must keep failing in the listed way only)
	drv.Prop(t, rec, "dhcp-on-tracked-source", 300, 3000, func(t *rapid.T) history {
		h := history{Cfg: histCfg{LAN: rapid.IntRange(0, 2).Draw(t, "lan"), Quiet: rapid.SampledFrom([]int{0, 0, 1, 2}).Draw(t, "quiet")}}
		h.Ops = append(h.Ops, hOp{K: "f4", Src: mC1, IP: i4A})
		h.Ops = append(h.Ops, hOp{K: "dhcp", Src: mC1, IP: i4A, New: rapid.SampledFrom([]int{i4B, i4C}).Draw(t, "new"), Name: "n"})
		return h
	}, func(tb drv.TB, h history) { runHist(tb, rec, "C06", "dhcp-on-tracked-source", h, or, nt) })
}
