//go:build verif

package harness

import (
	"bytes"
	"fmt"
	"net"
	"net/netip"
	"sort"
	"strings"
	"time"

	"github.com/irai/packet"
	"verifharness/drv"
	"verifharness/gen"
	"verifharness/ref"
)

// History interpreter shared by C04 (host tracking vs. model), C05 (table
// invariants) and C06 (notification transcript). A history is plain data; the
// interpreter applies every op to a real session and to the reference model.

// ---- universe (indices into these tables are what ops carry)

var (
	hMACs = []ref.MAC{
		{0x00, 0xff, 0x03, 0x04, 0x05, 0x01}, // 0 own
		{0x00, 0xff, 0x03, 0x04, 0x05, 0x11}, // 1 router
		{0x01, 0x00, 0x5e, 0x00, 0x00, 0xfb}, // 2 multicast
		{0x00, 0x02, 0x03, 0x04, 0x05, 0x01}, // 3 c1
		{0x00, 0x02, 0x03, 0x04, 0x05, 0x02}, // 4 c2
		// the stations differ from one another in a single byte, each pair in another position (own/c1: byte 1,
		// c1/c2: byte 5, c1/c3: byte 4, c1/c4: byte 3, c2/c5: byte 2): a MAC comparison must look at all six
		{0x00, 0x02, 0x03, 0x04, 0x15, 0x01}, // 5 c3
		{0x00, 0x02, 0x03, 0x14, 0x05, 0x01}, // 6 c4
		{0x00, 0x02, 0x13, 0x04, 0x05, 0x02}, // 7 c5
		{0x00, 0x03, 0x02, 0x04, 0x05, 0x01}, // 8 c6: c1 with bytes 1 and 2 swapped (equal under OR / XOR / sum of those bytes)
		{0x00, 0x00, 0x5e, 0x00, 0x01, 0x01}, // 9 c7: a VRRP virtual router MAC - an ordinary unicast station as far as tracking goes
	}
	hMACName = []string{"own", "router", "mcast", "c1", "c2", "c3", "c4", "c5", "c6", "c7"}
)

const (
	mOwn, mRouter, mMcast, mC1, mC2, mC3, mC4, mC5, mC6, mC7 = 0, 1, 2, 3, 4, 5, 6, 7, 8, 9
)

// IPv4 indices are relative to the configured LAN (see histCfg.ip4).
const (
	i4A, i4B, i4C, i4Host, i4Router, i4Off, i4Zero, i4Bcast = 0, 1, 2, 3, 4, 5, 6, 7
)

var hIP6 = []netip.Addr{
	netip.MustParseAddr("fe80::aa"),               // 0 LLA x
	netip.MustParseAddr("fe80::bb"),               // 1 LLA y
	netip.MustParseAddr("2001:db8::aa"),           // 2 GUA g1
	netip.MustParseAddr("2001:db8::bb"),           // 3 GUA g2
	netip.MustParseAddr("ff02::1"),                // 4 multicast
	netip.MustParseAddr("::"),                     // 5 unspecified
	netip.MustParseAddr("fd00::1234:aa"),          // 6 ULA (global unicast by netip's definition)
	netip.MustParseAddr("::ffff:192.168.0.5"),     // 7 IPv4-mapped form of an on-LAN IPv4 address: a distinct key from 192.168.0.5
	netip.MustParseAddr("::1"),                    // 8 loopback: unicast, but neither link-local nor global unicast
	netip.MustParseAddr("::ffff:127.0.0.1"),       // 9 IPv4-mapped loopback
	netip.MustParseAddr("::ffff:255.255.255.255"), // 10 IPv4-mapped limited broadcast
}

type histCfg struct {
	LAN    int `json:"lan"`             // 0: /24, 1: /25, 2: /28
	Timing int `json:"timing"`          // index into hTimings
	Quiet  int `json:"quiet,omitempty"` // log level of the package loggers: 0 default (info), 1 error only, 2 debug: behaviour must not depend on it
	// the application has stopped reading Session.C: the channel is full from the start and never drained
	// (notifications are then dropped by design; host tracking must go on as before). Not used with the C06 oracle.
	Full bool `json:"full,omitempty"`
}

var hLANs = []struct {
	prefix netip.Prefix
	host   netip.Addr
	router netip.Addr
}{
	{netip.MustParsePrefix("192.168.0.0/24"), netip.MustParseAddr("192.168.0.129"), netip.MustParseAddr("192.168.0.11")},
	{netip.MustParsePrefix("192.168.0.128/25"), netip.MustParseAddr("192.168.0.129"), netip.MustParseAddr("192.168.0.130")},
	{netip.MustParsePrefix("10.1.2.16/28"), netip.MustParseAddr("10.1.2.17"), netip.MustParseAddr("10.1.2.30")},
}

var hTimings = []struct{ probe, offline, purge time.Duration }{
	{2 * time.Minute, 5 * time.Minute, 61 * time.Minute},
	{1 * time.Minute, 1 * time.Minute, 2 * time.Minute},
	{30 * time.Minute, 60 * time.Minute, 24 * time.Hour},
}

func (c histCfg) ip4(i int) netip.Addr {
	l := hLANs[c.LAN]
	base := l.prefix.Addr().As4()
	switch i {
	case i4A, i4B, i4C:
		base[3] += byte(5 + i) // .5 .6 .7 inside every configured LAN
		return netip.AddrFrom4(base)
	case i4Host:
		return l.host
	case i4Router:
		return l.router
	case i4Off:
		return netip.MustParseAddr("172.16.9.9")
	case i4Zero:
		return netip.MustParseAddr("0.0.0.0")
	}
	// LAN broadcast
	bits := l.prefix.Bits()
	a := l.prefix.Addr().As4()
	v := uint32(a[0])<<24 | uint32(a[1])<<16 | uint32(a[2])<<8 | uint32(a[3])
	v |= (1 << uint(32-bits)) - 1
	return netip.AddrFrom4([4]byte{byte(v >> 24), byte(v >> 16), byte(v >> 8), byte(v)})
}

func (c histCfg) nic() nicCfg {
	w := gen.DefaultWorld()
	l := hLANs[c.LAN]
	w.LAN, w.HostIP, w.RouterIP = l.prefix, l.host, l.router
	w.HostMAC, w.RouterMAC = hMACs[mOwn], hMACs[mRouter]
	tm := hTimings[c.Timing]
	return nicCfg{W: w, Probe: tm.probe, Offline: tm.offline, Purge: tm.purge}
}

// ---- ops

type hOp struct {
	K    string `json:"k"`              // f4 f6 arp dhcp name adv purge offer capture release
	Src  int    `json:"src,omitempty"`  // ethernet source MAC index
	IP   int    `json:"ip,omitempty"`   // IPv4 / IPv6 index (source address)
	SHA  int    `json:"sha,omitempty"`  // ARP sender MAC index
	New  int    `json:"new,omitempty"`  // dhcp: announced IPv4 index
	Name string `json:"name,omitempty"` // dhcp / name: learned name
	NSrc int    `json:"nsrc,omitempty"` // name: 0 dhcp4 1 mdns 2 ssdp 3 llmnr 4 nbns
	V6   bool   `json:"v6,omitempty"`   // name: the carrying frame is IPv6
	D    int    `json:"d,omitempty"`    // adv: index into advance table
	Exp  int    `json:"exp,omitempty"`  // name: expiry announced with the name (0 none, k: k hours from a fixed instant)
}

func (o hOp) String() string {
	switch o.K {
	case "f4":
		return fmt.Sprintf("f4(%s,ip4#%d)", hMACName[o.Src], o.IP)
	case "f6":
		return fmt.Sprintf("f6(%s,ip6#%d)", hMACName[o.Src], o.IP)
	case "arp":
		return fmt.Sprintf("arp(eth=%s,sha=%s,spa#%d)", hMACName[o.Src], hMACName[o.SHA], o.IP)
	case "dhcp":
		return fmt.Sprintf("dhcp(%s,src#%d->ip4#%d,%q)", hMACName[o.Src], o.IP, o.New, o.Name)
	case "name":
		return fmt.Sprintf("name(%s,ip#%d,v6=%v,src%d,%q)", hMACName[o.Src], o.IP, o.V6, o.NSrc, o.Name)
	case "adv":
		return fmt.Sprintf("adv(%d)", o.D)
	}
	return o.K
}

type history struct {
	Cfg histCfg `json:"cfg"`
	Ops []hOp   `json:"ops"`
}

// advance table: d is resolved against the configured deadlines
func (c histCfg) advance(d int) time.Duration {
	tm := hTimings[c.Timing]
	switch d {
	case 0:
		return tm.probe - time.Second
	case 1:
		return tm.offline - time.Second
	case 2:
		return tm.offline + time.Second
	case 3:
		return tm.purge - time.Second
	case 4:
		return tm.purge + time.Second
	case 5:
		return 2 * tm.purge
	}
	return time.Second
}

// ---- reference model

type mHost struct {
	mac      int
	macAddr  ref.MAC
	ip       netip.Addr
	online   bool
	lastSeen time.Duration // virtual
	forever  bool
	names    [5]packet.NameEntry // host level: dhcp4 mdns ssdp llmnr nbns
	pending  bool                // a notification is owed for this host (state or name changed)
	notified int                 // 0 never, 1 last notified online, 2 last notified offline
}

type mMAC struct {
	mac      ref.MAC
	ip4      netip.Addr
	hosts    []netip.Addr
	names    [5]packet.NameEntry
	isRouter bool
}

type model struct {
	cfg   histCfg
	now   time.Duration
	hosts map[netip.Addr]*mHost
	macs  map[ref.MAC]*mMAC
}

func newModel(c histCfg) *model {
	m := &model{cfg: c, hosts: map[netip.Addr]*mHost{}, macs: map[ref.MAC]*mMAC{}}
	l := hLANs[c.LAN]
	m.macs[hMACs[mOwn]] = &mMAC{mac: hMACs[mOwn], ip4: l.host, hosts: []netip.Addr{l.host}}
	m.hosts[l.host] = &mHost{macAddr: hMACs[mOwn], ip: l.host, online: true, forever: true, pending: true} // never reported yet, like the router entry
	m.macs[hMACs[mRouter]] = &mMAC{mac: hMACs[mRouter], ip4: l.router, hosts: []netip.Addr{l.router}, isRouter: true}
	// the router entry exists from the start but has never been reported: its first sighting owes the online notification
	m.hosts[l.router] = &mHost{macAddr: hMACs[mRouter], ip: l.router, online: true, pending: true}
	return m
}

// expected notification
type mNote struct {
	MAC    ref.MAC
	IP     netip.Addr
	Online bool
}

func (m *model) removeHost(ip netip.Addr) {
	h := m.hosts[ip]
	if h == nil {
		return
	}
	delete(m.hosts, ip)
	me := m.macs[h.macAddr]
	for i, x := range me.hosts {
		if x == ip {
			me.hosts = append(me.hosts[:i:i], me.hosts[i+1:]...)
			break
		}
	}
	if len(me.hosts) == 0 {
		delete(m.macs, h.macAddr)
	}
}

// touch records traffic of (mac, ip): re-binding, creation, stamping, online transition.
// It returns the host and the siblings that were switched offline by an IPv4 change.
func (m *model) touch(mac ref.MAC, ip netip.Addr) (h *mHost, rebound bool, wentOffline []*mHost) {
	h = m.hosts[ip]
	if h != nil && h.macAddr != mac {
		m.removeHost(ip)
		h = nil
		rebound = true
	}
	if h == nil {
		me := m.macs[mac]
		if me == nil {
			me = &mMAC{mac: mac, ip4: netip.MustParseAddr("0.0.0.0")}
			m.macs[mac] = me
		}
		h = &mHost{macAddr: mac, ip: ip}
		m.hosts[ip] = h
		me.hosts = append(me.hosts, ip)
	}
	// traffic attributed to the own host (only possible through a forged ARP sender) replaces its
	// "never expires" time stamp like for any other host: the tracker has no special case for it
	h.forever = false
	h.lastSeen = m.now
	if !h.online {
		h.online = true
		h.pending = true
		me := m.macs[mac]
		if ip.Is4() && me.ip4 != ip {
			me.ip4 = ip
			for _, sip := range me.hosts {
				s := m.hosts[sip]
				if s != h && sip.Is4() && s.online {
					s.online = false
					s.pending = true
					wentOffline = append(wentOffline, s)
				}
			}
		}
	}
	return h, rebound, wentOffline
}

// creates reports whether a frame (ethSrc, ip) creates / touches a host by the discovery rule.
func (m *model) creates(ethSrc ref.MAC, ip netip.Addr, arp bool) bool {
	if ethSrc[0]&1 != 0 || ethSrc == hMACs[mOwn] {
		return false
	}
	if ip.Is4() {
		return hLANs[m.cfg.LAN].prefix.Contains(ip)
	}
	if arp {
		return false
	}
	return ip.IsLinkLocalUnicast() || (ip.IsGlobalUnicast() && ethSrc != hMACs[mRouter])
}

func (m *model) purge() (wentOffline []*mHost, removed []*mHost) {
	tm := hTimings[m.cfg.Timing]
	var del []netip.Addr
	for ip, h := range m.hosts {
		if h.forever {
			continue
		}
		silent := m.now - h.lastSeen
		if !h.online && silent > tm.purge {
			del = append(del, ip)
			continue
		}
		if h.online && silent > tm.offline {
			wentOffline = append(wentOffline, h)
		}
	}
	for _, h := range wentOffline {
		h.online = false
	}
	for _, ip := range del {
		removed = append(removed, m.hosts[ip])
		m.removeHost(ip)
	}
	return
}

func mergeName(old, in packet.NameEntry) (packet.NameEntry, bool) {
	mod := false
	if in.Name != "" && old.Name != in.Name {
		old.Name, mod = in.Name, true
	}
	if in.Model != "" && old.Model != in.Model {
		old.Model, mod = in.Model, true
	}
	if in.OS != "" && old.OS != in.OS {
		old.OS, mod = in.OS, true
	}
	if in.Manufacturer != "" && old.Manufacturer != in.Manufacturer {
		old.Manufacturer, mod = in.Manufacturer, true
	}
	old.Type = in.Type
	return old, mod
}

func (m *model) learnName(h *mHost, src int, n packet.NameEntry) bool {
	var mod bool
	h.names[src], mod = mergeName(h.names[src], n)
	if mod {
		me := m.macs[h.macAddr]
		me.names[src], _ = mergeName(me.names[src], h.names[src])
		h.pending = true
	}
	return mod
}

// ---- frames

func histFrame(cfg histCfg, o hOp) []byte {
	src := hMACs[o.Src]
	dst := hMACs[mRouter]
	switch o.K {
	case "f4", "name":
		if o.K == "name" && o.V6 {
			return ref.Eth(dst, src, 0x86dd, ref.IP6(ref.IP6Hdr{PayloadLen: -1, Next: 17, HopLimit: 64, Src: hIP6[o.IP%len(hIP6)].As16(), Dst: hIP6[4].As16()}, ref.UDP(9999, 9999, -1, 0, []byte("payload"))))
		}
		return ref.Eth(dst, src, 0x0800, ref.IP4(ref.IP4Hdr{TotalLen: -1, TTL: 64, Proto: 17, Checksum: -1, Src: cfg.ip4(o.IP).As4(), Dst: cfg.ip4(i4Router).As4()}, ref.UDP(9999, 9999, -1, 0, []byte("payload"))))
	case "f6":
		return ref.Eth(dst, src, 0x86dd, ref.IP6(ref.IP6Hdr{PayloadLen: -1, Next: 59, HopLimit: 64, Src: hIP6[o.IP%len(hIP6)].As16(), Dst: hIP6[4].As16()}, nil))
	case "arp":
		return ref.Eth(ref.MAC{0xff, 0xff, 0xff, 0xff, 0xff, 0xff}, src, 0x0806, ref.ARP(ref.ARPPkt{HType: 1, PType: 0x0800, HLen: 6, PLen: 4, Op: 1, SHA: hMACs[o.SHA], SPA: cfg.ip4(o.IP).As4(), TPA: cfg.ip4(i4Router).As4()}))
	case "dhcp":
		m := ref.DHCPMsg{Op: 1, HType: 1, HLen: 6, XID: [4]byte{1, 2, 3, 4}, CHAddr: src, Options: []ref.DHCPOpt{{Code: 53, Data: []byte{3}}}}
		return ref.Eth(ref.MAC{0xff, 0xff, 0xff, 0xff, 0xff, 0xff}, src, 0x0800, ref.IP4(ref.IP4Hdr{TotalLen: -1, TTL: 64, Proto: 17, Checksum: -1, Src: cfg.ip4(o.IP).As4(), Dst: [4]byte{255, 255, 255, 255}}, ref.UDP(68, 67, -1, 0, m.Encode(true))))
	}
	return nil
}

// ---- interpreter

type histOracles struct {
	Tables  bool                                                         // C04: FindIP/GetHosts/IPAddrs/FindByMAC/FindMACEntry == model
	Invar   bool                                                         // C05: structural invariants + PrintTable
	Notes   bool                                                         // C06: notification transcript == model
	Monitor func(step int, op hOp, frames []sentFrame) (sig, msg string) // C07: frames emitted by the step
}

type histResult struct {
	IPChange, Rebind, PurgeChanged, Excluded, OfflineNote, Shrunk, NameChange bool
	Steps                                                                     int
}

var nameSrcType = []string{"dhcp4", "mdns", "ssdp", "llmnr", "nbns"}

func applyName(h *packet.Host, src int, n packet.NameEntry) {
	switch src {
	case 0:
		h.UpdateDHCP4Name(n)
	case 1:
		h.UpdateMDNSName(n)
	case 2:
		h.UpdateSSDPName(n)
	case 3:
		h.UpdateLLMNRName(n)
	case 4:
		h.UpdateNBNSName(n)
	}
}

func hwOf(m ref.MAC) net.HardwareAddr { return net.HardwareAddr(m[:]) }

// runHistory executes h. On a violation of an enabled oracle it reports through rec (for
// the property rec belongs to) and returns.
func runHistory(tb drv.TB, rec *drv.Rec, sub string, h history, or histOracles) (res histResult) {
	if h.Cfg.Quiet != 0 { // process-wide setting: histories run one after the other in a shard
		defer setLogLevel(h.Cfg.Quiet)()
	}
	s, conn := newSession(h.Cfg.nic())
	defer closeSession(s)
	m := newModel(h.Cfg)
	vbase := time.Now()
	if rh := s.FindIP(hLANs[h.Cfg.LAN].router); rh != nil { // virtual time 0 for the pre-seeded router entry
		rh.LastSeen = vbase
		rh.MACEntry.LastSeen = vbase
	}
	buf := make([]byte, packet.EthMaxSize)
	violate := func(step int, sig, format string, args ...interface{}) bool {
		msg := fmt.Sprintf(format, args...)
		return rec.Violation(tb, sub, sig, h, "step %d (%v): %s\nhistory: %s", step, h.Ops[step], msg, histString(h))
	}
	stamp := func(host *packet.Host) {
		if host == nil {
			return
		}
		host.LastSeen = vbase.Add(m.now)
		host.MACEntry.LastSeen = host.LastSeen
	}
	full := h.Cfg.Full && !or.Notes
	if full {
		for len(s.C) < cap(s.C) {
			s.C <- packet.Notification{}
		}
		rec.Class("notification channel full throughout")
	}
	drain := func() []packet.Notification {
		var out []packet.Notification
		if full {
			return nil
		}
		for {
			select {
			case n := <-s.C:
				out = append(out, n)
			default:
				return out
			}
		}
	}
	for step, op := range h.Ops {
		res.Steps = step + 1
		var expect []mNote // expected notifications of this step: offlines (any order) first, then at most one for the source host
		var expectLast *mHost
		lenientExtraOffline := map[netip.Addr]bool{}
		var panicked interface{}
		var psig, pst string
		switch op.K {
		case "f4", "f6", "arp", "name", "dhcp":
			fb := histFrame(h.Cfg, op)
			n := copy(buf, fb)
			var frame packet.Frame
			var err error
			t0 := time.Now()
			panicked, psig, pst = drv.Catch(func() { frame, err = s.Parse(buf[:n]) })
			if panicked != nil {
				break
			}
			if err != nil {
				violate(step, "parse-error", "Parse rejected a well-formed frame: %v", err)
				return
			}
			// silence is counted from the station's last frame: every frame of a tracked source must move its LastSeen (and
			// its MAC entry's) to the moment it was parsed - however recently it was heard before
			if frame.Host != nil && (or.Tables || or.Notes) {
				frame.Host.MACEntry.Row.RLock()
				ls, mls := frame.Host.LastSeen, frame.Host.MACEntry.LastSeen
				frame.Host.MACEntry.Row.RUnlock()
				if ls.Before(t0) || mls.Before(t0) {
					violate(step, "hist-lastseen-not-refreshed", "after this frame the host's LastSeen is %v and its MAC entry's %v before the moment of the Parse call", t0.Sub(ls), t0.Sub(mls))
					return
				}
			}
			// model
			var mh *mHost
			ethSrc := hMACs[op.Src]
			var ip netip.Addr
			hostMAC := ethSrc
			switch op.K {
			case "f4", "dhcp":
				ip = h.Cfg.ip4(op.IP)
			case "f6":
				ip = hIP6[op.IP%len(hIP6)]
			case "name":
				if op.V6 {
					ip = hIP6[op.IP%len(hIP6)]
				} else {
					ip = h.Cfg.ip4(op.IP)
				}
			case "arp":
				ip = h.Cfg.ip4(op.IP)
				hostMAC = hMACs[op.SHA]
			}
			if m.creates(ethSrc, ip, op.K == "arp") {
				prev := m.hosts[ip]
				if prev != nil && prev.macAddr != hostMAC {
					res.Rebind = true
					if prev.notified == 1 {
						lenientExtraOffline[ip] = true
					}
				}
				var off []*mHost
				mh, _, off = m.touch(hostMAC, ip)
				for _, o := range off {
					res.IPChange = true
					expect = append(expect, mNote{o.macAddr, o.ip, false})
					o.pending = false
					o.notified = 2
				}
			} else if ethSrc[0]&1 != 0 || ethSrc == hMACs[mOwn] || !ip.IsUnspecified() {
				res.Excluded = true
			}
			stamp(frame.Host)
			// what the handlers would do between Parse and Notify
			switch op.K {
			case "name":
				if frame.Host != nil && mh != nil {
					ne := packet.NameEntry{Type: nameSrcType[op.NSrc%5], Name: op.Name}
					if op.Exp > 0 { // a refreshed announcement: same name, later expiry; the expiry is not an attribute
						ne.Expire = time.Date(2030, 1, 1, op.Exp, 0, 0, 0, time.UTC)
					}
					panicked, psig, pst = drv.Catch(func() { applyName(frame.Host, op.NSrc%5, ne) })
					if m.learnName(mh, op.NSrc%5, ne) {
						res.NameChange = true
					}
				}
			case "dhcp":
				newIP := h.Cfg.ip4(op.New)
				ne := packet.NameEntry{Type: "dhcp4", Name: op.Name}
				var derr error
				panicked, psig, pst = drv.Catch(func() { derr = s.DHCPv4Update(hwOf(ethSrc), newIP, ne) })
				if panicked != nil {
					break
				}
				if !newIP.IsValid() || newIP.IsUnspecified() {
					if derr == nil {
						violate(step, "dhcpupdate-accepts-zero", "DHCPv4Update accepted %v", newIP)
						return
					}
					break
				}
				prev := m.hosts[newIP]
				if prev != nil && prev.macAddr != ethSrc {
					res.Rebind = true
					if prev.notified == 1 {
						lenientExtraOffline[newIP] = true
					}
				}
				dh, _, off := m.touch(ethSrc, newIP)
				for _, o := range off {
					res.IPChange = true
					expect = append(expect, mNote{o.macAddr, o.ip, false})
					o.pending = false
					o.notified = 2
				}
				if m.learnName(dh, 0, ne) {
					res.NameChange = true
				}
				stamp(s.FindIP(newIP))
				if mh == nil {
					mh = dh // the frame itself has no tracked source: Notify resolves the announced address
				} else if mh != dh {
					// a DHCP update for an address other than the frame's tracked source: both owe a notification
					if dh.pending {
						expect = append(expect, mNote{dh.macAddr, dh.ip, dh.online})
						dh.pending = false
						dh.notified = map[bool]int{true: 1, false: 2}[dh.online]
					}
				}
			}
			if panicked != nil {
				break
			}
			if mh != nil && mh.pending {
				expectLast = mh
			}
			panicked, psig, pst = drv.Catch(func() { s.Notify(frame) })
		case "adv":
			m.now += h.Cfg.advance(op.D)
		case "purge":
			off, removed := m.purge()
			for _, o := range off {
				res.PurgeChanged = true
				expect = append(expect, mNote{o.macAddr, o.ip, false})
				o.pending = false
				o.notified = 2
			}
			if len(removed) > 0 {
				res.PurgeChanged, res.Shrunk = true, true
			}
			panicked, psig, pst = drv.Catch(func() { s.VerifPurge(vbase.Add(m.now)) })
		case "offer":
			panicked, psig, pst = drv.Catch(func() {
				s.SetDHCPv4IPOffer(hwOf(hMACs[op.Src]), h.Cfg.ip4(op.New), packet.NameEntry{Type: "dhcp4", Name: op.Name})
			})
			if me := m.macs[hMACs[op.Src]]; me == nil {
				m.macs[hMACs[op.Src]] = &mMAC{mac: hMACs[op.Src], ip4: netip.MustParseAddr("0.0.0.0")}
			}
			m.macs[hMACs[op.Src]].names[0] = packet.NameEntry{Type: "dhcp4", Name: op.Name} // SetDHCPv4IPOffer overwrites the MAC-level DHCP name
		case "capture":
			panicked, psig, pst = drv.Catch(func() { s.Capture(hwOf(hMACs[op.Src])) })
			if me := m.macs[hMACs[op.Src]]; me == nil {
				m.macs[hMACs[op.Src]] = &mMAC{mac: hMACs[op.Src], ip4: netip.MustParseAddr("0.0.0.0")}
			}
		case "release":
			panicked, psig, pst = drv.Catch(func() { s.Release(hwOf(hMACs[op.Src])) })
		}
		if panicked != nil {
			violate(step, psig, "library panicked: %v\n%s", panicked, pst)
			return
		}
		if expectLast != nil {
			expect = append(expect, mNote{expectLast.macAddr, expectLast.ip, expectLast.online})
			expectLast.pending = false
			expectLast.notified = map[bool]int{true: 1, false: 2}[expectLast.online]
		}
		if len(expect) > 0 {
			for _, e := range expect {
				if !e.Online {
					res.OfflineNote = true
				}
			}
		}
		got := drain()

		// ---- C06
		if or.Notes {
			if sig, msg := compareNotes(m, expect, got, lenientExtraOffline); sig != "" {
				sig = classifyNoteFinding(sig, op, h, step)
				if violate(step, sig, "%s", msg) {
					// known finding: the real state and the model have diverged in what is owed; resync the model's ledger
					for _, hh := range m.hosts {
						hh.pending = false
					}
					return
				}
				return
			}
		}
		// ---- C07 monitor
		if or.Monitor != nil {
			if op.K == "purge" { // purge sends its probes from a goroutine it starts: give it a moment
				for i := 0; i < 4; i++ {
					time.Sleep(250 * time.Microsecond)
				}
			}
			if sig, msg := or.Monitor(step, op, conn.Take()); sig != "" {
				violate(step, sig, "%s", msg)
				return
			}
		} else {
			conn.Take()
		}
		// ---- C04
		if or.Tables {
			if sig, msg := compareTables(h.Cfg, s, m); sig != "" {
				violate(step, sig, "%s", msg)
				return
			}
		}
		// ---- C05
		if or.Invar {
			if sig, msg := checkTableInvariants(s); sig != "" {
				violate(step, sig, "%s", msg)
				return
			}
		}
	}
	return res
}

func histString(h history) string {
	var sb strings.Builder
	fmt.Fprintf(&sb, "lan=%d timing=%d:", h.Cfg.LAN, h.Cfg.Timing)
	for _, o := range h.Ops {
		sb.WriteString(" " + o.String())
	}
	return sb.String()
}

// compareTables is the C04 oracle.
func compareTables(cfg histCfg, s *packet.Session, m *model) (sig, msg string) {
	var universe []netip.Addr
	for i := 0; i <= i4Bcast; i++ {
		universe = append(universe, cfg.ip4(i))
	}
	universe = append(universe, hIP6...)
	for _, ip := range universe {
		got := s.FindIP(ip)
		want := m.hosts[ip]
		switch {
		case (got == nil) != (want == nil):
			return "c04-findip-presence", fmt.Sprintf("FindIP(%v): tracked=%v, model tracked=%v", ip, got != nil, want != nil)
		case got == nil:
			continue
		case !bytes.Equal(got.MACEntry.MAC, want.macAddr[:]) || !bytes.Equal(got.Addr.MAC, want.macAddr[:]):
			return "c04-findip-mac", fmt.Sprintf("FindIP(%v): mac %v, model %v", ip, got.MACEntry.MAC, want.macAddr)
		case got.Online != want.online:
			return "c04-findip-online", fmt.Sprintf("FindIP(%v): online=%v, model online=%v", ip, got.Online, want.online)
		}
	}
	var gotSet []string
	for _, h := range s.GetHosts() {
		gotSet = append(gotSet, h.Addr.IP.String())
	}
	var wantSet []string
	for ip := range m.hosts {
		wantSet = append(wantSet, ip.String())
	}
	sort.Strings(gotSet)
	sort.Strings(wantSet)
	if strings.Join(gotSet, ",") != strings.Join(wantSet, ",") {
		return "c04-gethosts", fmt.Sprintf("GetHosts = %v, model %v", gotSet, wantSet)
	}
	for _, mac := range hMACs {
		var want []string
		if me := m.macs[mac]; me != nil {
			for _, ip := range me.hosts {
				want = append(want, ip.String())
			}
		}
		sort.Strings(want)
		for name, list := range map[string][]packet.Addr{"IPAddrs": s.IPAddrs(hwOf(mac)), "FindByMAC": s.FindByMAC(hwOf(mac))} {
			var got []string
			for _, a := range list {
				got = append(got, a.IP.String())
				if !bytes.Equal(a.MAC, mac[:]) {
					return "c04-" + strings.ToLower(name) + "-mac", fmt.Sprintf("%s(%v) returned an entry with MAC %v", name, mac, a.MAC)
				}
			}
			sort.Strings(got)
			if strings.Join(got, ",") != strings.Join(want, ",") {
				return "c04-" + strings.ToLower(name), fmt.Sprintf("%s(%v) = %v, model %v", name, net.HardwareAddr(mac[:]), got, want)
			}
		}
		if (s.FindMACEntry(hwOf(mac)) != nil) != (m.macs[mac] != nil) {
			return "c04-findmacentry", fmt.Sprintf("FindMACEntry(%v) present=%v, model %v", net.HardwareAddr(mac[:]), s.FindMACEntry(hwOf(mac)) != nil, m.macs[mac] != nil)
		}
	}
	return "", ""
}

// checkTableInvariants is the C05 oracle (read at a quiescent point).
func checkTableInvariants(s *packet.Session) (sig, msg string) {
	macSeen := map[string]int{}
	entryIndex := map[*packet.MACEntry]int{}
	for i, e := range s.MACTable.Table {
		if e == nil {
			return "c05-nil-macentry", fmt.Sprintf("MACTable.Table[%d] is nil", i)
		}
		macSeen[string(e.MAC)]++
		entryIndex[e]++
	}
	for mac, n := range macSeen {
		if n != 1 {
			return "c05-duplicate-mac", fmt.Sprintf("MAC %v has %d entries", net.HardwareAddr(mac), n)
		}
	}
	for ip, h := range s.HostTable.Table {
		if h == nil {
			return "c05-nil-host", fmt.Sprintf("HostTable[%v] is nil", ip)
		}
		if h.Addr.IP != ip {
			return "c05-host-index", fmt.Sprintf("host %v is indexed under %v", h.Addr.IP, ip)
		}
		if h.MACEntry == nil {
			return "c05-host-without-mac", fmt.Sprintf("host %v has no MAC entry", ip)
		}
		if !bytes.Equal(h.MACEntry.MAC, h.Addr.MAC) {
			return "c05-host-mac-mismatch", fmt.Sprintf("host %v: Addr.MAC %v, MACEntry.MAC %v", ip, h.Addr.MAC, h.MACEntry.MAC)
		}
		if entryIndex[h.MACEntry] != 1 {
			return "c05-macentry-not-in-table", fmt.Sprintf("host %v points to a MAC entry (%v) that occurs %d times in the MAC table", ip, h.MACEntry.MAC, entryIndex[h.MACEntry])
		}
		n := 0
		for _, x := range h.MACEntry.HostList {
			if x == h {
				n++
			}
		}
		if n != 1 {
			return "c05-host-not-in-hostlist", fmt.Sprintf("host %v occurs %d times in the host list of %v", ip, n, h.MACEntry.MAC)
		}
		if h.Online && !h.MACEntry.Online {
			return "c05-online-host-offline-mac", fmt.Sprintf("host %v is online but its MAC entry %v is offline", ip, h.MACEntry.MAC)
		}
	}
	total := 0
	for _, e := range s.MACTable.Table {
		for _, h := range e.HostList {
			total++
			if h == nil {
				return "c05-nil-in-hostlist", fmt.Sprintf("nil host under %v", e.MAC)
			}
			if s.HostTable.Table[h.Addr.IP] != h {
				return "c05-hostlist-not-indexed", fmt.Sprintf("host %v listed under %v is not the indexed host for its IP", h.Addr.IP, e.MAC)
			}
			if h.MACEntry != e {
				return "c05-hostlist-backpointer", fmt.Sprintf("host %v listed under %v points back to %v", h.Addr.IP, e.MAC, h.MACEntry.MAC)
			}
		}
	}
	if total != len(s.HostTable.Table) {
		return "c05-count", fmt.Sprintf("%d hosts in the index, %d under MAC entries", len(s.HostTable.Table), total)
	}
	// PrintTable asserts part of this itself (it panics on a mismatch)
	if p, psig, st := drv.Catch(func() { s.PrintTable() }); p != nil {
		return "c05-printtable-" + psig, fmt.Sprintf("PrintTable panicked: %v\n%s", p, st)
	}
	return "", ""
}

// compareNotes is the C06 oracle: expected = offlines (any order) then at most one for the source host.
func compareNotes(m *model, expect []mNote, got []packet.Notification, lenientOffline map[netip.Addr]bool) (sig, msg string) {
	render := func() string {
		var g, e []string
		for _, n := range got {
			g = append(g, fmt.Sprintf("%v/%v online=%v", net.HardwareAddr(n.Addr.MAC), n.Addr.IP, n.Online))
		}
		for _, n := range expect {
			e = append(e, fmt.Sprintf("%v/%v online=%v", net.HardwareAddr(n.MAC[:]), n.IP, n.Online))
		}
		return fmt.Sprintf("got [%s], statement requires [%s]", strings.Join(g, "; "), strings.Join(e, "; "))
	}
	// lenient: a re-bound address may (or may not) be reported offline for its previous holder
	var filtered []packet.Notification
	for _, n := range got {
		if !n.Online && lenientOffline[n.Addr.IP] {
			if mh := m.hosts[n.Addr.IP]; mh == nil || !bytes.Equal(n.Addr.MAC, mh.macAddr[:]) {
				continue
			}
		}
		filtered = append(filtered, n)
	}
	got = filtered
	if len(got) != len(expect) {
		switch {
		case len(got) < len(expect):
			return "c06-lost", "notification lost: " + render()
		default:
			return "c06-duplicate-or-spurious", "unexpected notification: " + render()
		}
	}
	// offline part as a multiset, then order: every offline precedes the final notification
	key := func(mac []byte, ip netip.Addr, on bool) string { return fmt.Sprintf("%x/%v/%v", mac, ip, on) }
	wantSet := map[string]int{}
	for _, e := range expect {
		wantSet[key(e.MAC[:], e.IP, e.Online)]++
	}
	for _, g := range got {
		k := key(g.Addr.MAC, g.Addr.IP, g.Online)
		if wantSet[k] == 0 {
			return "c06-wrong-notification", "wrong notification: " + render()
		}
		wantSet[k]--
	}
	if n := len(expect); n > 0 && expect[n-1].Online {
		last := got[n-1]
		if !last.Online || last.Addr.IP != expect[n-1].IP {
			return "c06-order", "the online notification must follow the offline notifications of the superseded addresses: " + render()
		}
	}
	// content
	for _, g := range got {
		mh := m.hosts[g.Addr.IP]
		if mh == nil {
			continue
		}
		me := m.macs[mh.macAddr]
		if g.IsRouter != me.isRouter {
			return "c06-content-isrouter", fmt.Sprintf("notification for %v: IsRouter=%v, tracked %v", g.Addr.IP, g.IsRouter, me.isRouter)
		}
		for i, pair := range [][2]packet.NameEntry{{g.DHCP4Name, me.names[0]}, {g.MDNSName, me.names[1]}, {g.SSDPName, me.names[2]}, {g.LLMNRName, mh.names[3]}, {g.NBNSName, me.names[4]}} {
			if pair[0].Name != pair[1].Name {
				return "c06-content-name", fmt.Sprintf("notification for %v: %s name %q, tracked %q", g.Addr.IP, nameSrcType[i], pair[0].Name, pair[1].Name)
			}
		}
	}
	return "", ""
}

// classifyNoteFinding refines a C06 signature with the history shape that produced it.
func classifyNoteFinding(sig string, op hOp, h history, step int) string {
	if op.K == "dhcp" && op.IP != i4Zero && op.IP != op.New {
		switch sig {
		case "c06-lost", "c06-wrong-notification", "c06-duplicate-or-spurious":
			return "c06-transcript:dhcp-update-on-frame-from-tracked-source"
		}
	}
	return sig
}
