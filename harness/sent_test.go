//go:build verif

package harness

import (
	"fmt"
	"net/netip"

	"verifharness/ref"
)

// Generic judgement of a frame the library transmitted (C07): complete,
// length-consistent, checksums verify, Ethernet source = host NIC MAC.

type sentInfo struct {
	eth    ref.EthView
	kind   string // arp | ip4-udp | ip4-icmp | ip6-udp | ip6-icmp6 | ip4-other | ip6-other
	ip4    ref.IP4View
	ip6    ref.IP6View
	udp    ref.UDPView
	icmp   ref.ICMPView
	arp    ref.ARPPkt
	srcIP  netip.Addr
	dstIP  netip.Addr
	l4     []byte
	ndpOpt []ref.NDPOpt
}

// callerChoseDst exempts the IPv6 multicast-MAC rule: the (MAC, IP) pair came from the caller.
func decodeSent(b []byte, hostMAC ref.MAC, callerChoseDst bool) (in sentInfo, sig, msg string) {
	ev, err := ref.ParseEth(b)
	if err != nil {
		return in, "c07-ether", err.Error()
	}
	in.eth = ev
	if ev.Src != hostMAC {
		return in, "c07-ether-source", fmt.Sprintf("Ethernet source %x, host NIC MAC %x", ev.Src, hostMAC)
	}
	switch ev.Type {
	case 0x0806:
		in.kind = "arp"
		p, err := ref.ParseARP(ev.Payload)
		if err != nil {
			return in, "c07-arp-length", err.Error()
		}
		in.arp = p
		if p.HType != 1 || p.PType != 0x0800 || p.HLen != 6 || p.PLen != 4 {
			return in, "c07-arp-header", fmt.Sprintf("ARP htype=%d ptype=%#x hlen=%d plen=%d (want 1, 0x0800, 6, 4)", p.HType, p.PType, p.HLen, p.PLen)
		}
		if p.Op != 1 && p.Op != 2 {
			return in, "c07-arp-op", fmt.Sprintf("ARP operation %d", p.Op)
		}
	case 0x0800:
		v, err := ref.ParseIP4(ev.Payload)
		if err != nil {
			return in, "c07-ip4", err.Error()
		}
		in.ip4 = v
		in.srcIP, in.dstIP = netip.AddrFrom4(v.Src), netip.AddrFrom4(v.Dst)
		if v.Trailing != 0 {
			return in, "c07-ip4-length", fmt.Sprintf("frame is %d bytes but 14+TotalLen = %d", len(b), 14+v.TotalLen)
		}
		if !v.ChecksumOK {
			return in, "c07-ip4-checksum", fmt.Sprintf("IPv4 header checksum does not verify (header % x)", ev.Payload[:v.IHL])
		}
		in.l4 = v.Payload
		switch v.Proto {
		case 17:
			in.kind = "ip4-udp"
			u, err := ref.ParseUDP(v.Payload)
			if err != nil {
				return in, "c07-udp-length", err.Error()
			}
			in.udp = u
		case 1:
			in.kind = "ip4-icmp"
			ic, err := ref.ParseICMP(v.Payload)
			if err != nil {
				return in, "c07-icmp", err.Error()
			}
			in.icmp = ic
			if !ref.Verifies(v.Payload) {
				return in, "c07-icmp-checksum", fmt.Sprintf("ICMP checksum does not verify (residual %04x)", ref.Checksum(v.Payload))
			}
		default:
			in.kind = "ip4-other"
			return in, "c07-ip4-protocol", fmt.Sprintf("unexpected IPv4 protocol %d", v.Proto)
		}
	case 0x86dd:
		v, err := ref.ParseIP6(ev.Payload)
		if err != nil {
			return in, "c07-ip6", err.Error()
		}
		in.ip6 = v
		in.srcIP, in.dstIP = netip.AddrFrom16(v.Src), netip.AddrFrom16(v.Dst)
		if v.Trailing != 0 {
			return in, "c07-ip6-length", fmt.Sprintf("frame is %d bytes but 14+40+PayloadLen = %d", len(b), 54+v.PayloadLen)
		}
		if in.dstIP.IsMulticast() && !callerChoseDst {
			if want := ref.MulticastMAC6(v.Dst); ev.Dst != want {
				return in, "c07-ip6-multicast-mac", fmt.Sprintf("IPv6 multicast destination %v sent to MAC %x, RFC 2464 mapping is %x", in.dstIP, ev.Dst, want)
			}
		}
		in.l4 = v.Payload
		switch v.Next {
		case 17:
			in.kind = "ip6-udp"
			u, err := ref.ParseUDP(v.Payload)
			if err != nil {
				return in, "c07-udp-length", err.Error()
			}
			in.udp = u
		case 58:
			in.kind = "ip6-icmp6"
			ic, err := ref.ParseICMP(v.Payload)
			if err != nil {
				return in, "c07-icmp6", err.Error()
			}
			in.icmp = ic
			if !ref.ICMP6Verify(v.Src, v.Dst, v.Payload) {
				return in, "c07-icmp6-checksum", fmt.Sprintf("ICMPv6 checksum does not verify under the pseudo-header (type %d, %d bytes)", ic.Type, len(v.Payload))
			}
			if ic.Type >= 133 && ic.Type <= 137 { // neighbour discovery
				if ic.Code != 0 {
					return in, "c07-ndp-code", fmt.Sprintf("NDP type %d with code %d", ic.Type, ic.Code)
				}
				if (in.dstIP.IsLinkLocalUnicast() || in.dstIP.IsLinkLocalMulticast()) && v.HopLimit != 255 {
					return in, "c07-ndp-hoplimit", fmt.Sprintf("NDP type %d to %v with hop limit %d", ic.Type, in.dstIP, v.HopLimit)
				}
				fixed := map[byte]int{133: 8, 134: 16, 135: 24, 136: 24, 137: 40}[ic.Type]
				if len(v.Payload) < fixed {
					return in, "c07-ndp-short", fmt.Sprintf("NDP type %d is %d bytes, fixed part is %d", ic.Type, len(v.Payload), fixed)
				}
				opts, err := ref.ParseNDPOptions(v.Payload[fixed:])
				if err != nil {
					return in, "c07-ndp-options", fmt.Sprintf("NDP type %d: %v", ic.Type, err)
				}
				in.ndpOpt = opts
			}
		default:
			in.kind = "ip6-other"
			return in, "c07-ip6-next-header", fmt.Sprintf("unexpected IPv6 next header %d", v.Next)
		}
	default:
		return in, "c07-ethertype", fmt.Sprintf("unexpected EtherType %#04x", ev.Type)
	}
	return in, "", ""
}

func (in sentInfo) ndp(t byte) ([]byte, bool) {
	for _, o := range in.ndpOpt {
		if o.Type == t {
			return o.Body, true
		}
	}
	return nil, false
}
