//go:build verif

package harness

import (
	"fmt"
	"net/netip"
	"sync"
	"testing"
	"time"

	"github.com/irai/packet"
	"pgregory.net/rapid"
	"verifharness/drv"
	"verifharness/gen"
	"verifharness/ref"
)

// C19 — Ping completes exactly on a matching echo reply.
//
// Real time: rapid draws a batch of scenarios that run concurrently (each with
// its own session and connection); a scenario is 1..8 concurrent Ping/Ping6
// calls with a reply script per ping. The harness learns every ping's
// identifier from the echo request captured on the connection and injects the
// scripted frames through Session.Parse.

const c19Rule = "batches of concurrent scenarios; a scenario = 1..8 concurrent Ping/Ping6 calls, each with a script: matching reply at once | matching reply twice (replies carried in IP headers with DF, options, TOS/identification, traffic class/flow label, with 0 / 5 / 1000 bytes of echo data, with the request's sequence number or with 0 / 0xfffe) | reply with a foreign identifier | echo REQUEST with the ping's identifier | another ICMP type (incl. the other family's reply type) with the identifier at the same offset | truncated ICMP (Parse error) | matching reply 400 ms later (while other pings of the scenario time out) | matching reply only after the time-out | nothing | send failure (wrong address family). oracle: nil <=> a matching reply was injected before the deadline (1 s time-outs for the positive scripts, 200 ms for the negative ones, and the arguments 0 and 11 s that are documented to mean 2 s; only lower bounds on latency); identifiers distinct; no waiter left once every call has returned; sub-check wraparound: the 16-bit identifier counter is driven to 65534, then six pings are pending at the same time across the wrap-around (distinct identifiers, each completed by its own reply). non-trivial = scenario with >= 2 concurrent pings and >= 1 non-matching reply; distinct by hash of the scenario"

type c19Ping struct {
	V6     bool   `json:"v6"`
	Script string `json:"script"`        // early twice foreign request othertype truncated late none badfamily
	Hdr    int    `json:"hdr,omitempty"` // shape of the carrying IP header / echo data of the injected reply (c19Frame)
	Alt    int    `json:"alt,omitempty"` // othertype: which ICMP type carries the identifier
	TO     int    `json:"to,omitempty"`  // time-out argument: 0 = the script's own, 1 = zero, 2 = 11 s (both documented to mean 2 s)
}

type c19Scenario struct {
	Pings []c19Ping `json:"pings"`
}

type c19Batch struct {
	Scenarios []c19Scenario `json:"scenarios"`
}

type c19Result struct {
	err      error
	latency  time.Duration
	id       int // -1 unknown
	injected time.Duration
	done     bool
}

func c19RunScenario(sc c19Scenario) (res []c19Result, problems []string, inconclusive bool, nontrivial bool) {
	w := gen.DefaultWorld()
	s, conn := newSession(defaultNIC())
	defer closeSession(s)
	res = make([]c19Result, len(sc.Pings))
	for i := range res {
		res[i].id = -1
	}
	dst4 := func(i int) netip.Addr { return netip.AddrFrom4([4]byte{192, 168, 0, byte(30 + i)}) }
	dst6 := func(i int) netip.Addr {
		a := netip.MustParseAddr("fe80::100").As16()
		a[15] = byte(30 + i)
		return netip.AddrFrom16(a)
	}
	// arg is the value handed to Ping, timeout the time-out that value means
	arg := func(p c19Ping) time.Duration {
		switch p.TO {
		case 1:
			return 0
		case 2:
			return 11 * time.Second
		}
		if p.Script == "early" || p.Script == "twice" || p.Script == "delayed" || p.Script == "instant" {
			return time.Second
		}
		return 200 * time.Millisecond
	}
	timeout := func(p c19Ping) time.Duration {
		if a := arg(p); a > 0 && a <= 10*time.Second {
			return a
		}
		return 2 * time.Second
	}
	longest := time.Second
	for _, p := range sc.Pings {
		if timeout(p) > longest {
			longest = timeout(p)
		}
	}
	var wg sync.WaitGroup
	var mu sync.Mutex
	start := make([]time.Time, len(sc.Pings))
	// script "instant": the station answers so fast that the packet loop has parsed the echo reply before the write of the
	// request returns (a responder on the same host, a switch that loops the frame back): the reply is parsed from
	// inside the connection's WriteTo, on another goroutine, and the write waits for it
	conn.mu.Lock()
	conn.hook = func(b []byte) {
		d := ref.Decode(b)
		if (d.PayloadID != ref.PICMP4 && d.PayloadID != ref.PICMP6) || d.OffPayload+8 > len(b) || (b[d.OffPayload] != 8 && b[d.OffPayload] != 128) {
			return
		}
		idx := -1
		if d.DstIP.Is4() {
			idx = int(d.DstIP.As4()[3]) - 30
		} else {
			idx = int(d.DstIP.As16()[15]) - 30
		}
		if idx < 0 || idx >= len(sc.Pings) || sc.Pings[idx].Script != "instant" {
			return
		}
		id := uint16(b[d.OffPayload+4])<<8 | uint16(b[d.OffPayload+5])
		reply := byte(0)
		if sc.Pings[idx].V6 {
			reply = 129
		}
		fb := echoFrame(w, sc.Pings[idx].V6, reply, id)
		done := make(chan struct{})
		go func() {
			defer close(done)
			buf := make([]byte, packet.EthMaxSize)
			drv.Catch(func() { s.Parse(buf[:copy(buf, fb)]) })
		}()
		select {
		case <-done:
		case <-time.After(3 * time.Second):
		}
	}
	conn.mu.Unlock()
	for i, p := range sc.Pings {
		wg.Add(1)
		go func(i int, p c19Ping) {
			defer wg.Done()
			var err error
			t0 := time.Now()
			mu.Lock()
			start[i] = t0
			mu.Unlock()
			pan, _, _ := drv.Catch(func() {
				switch {
				case p.Script == "badfamily" && p.V6:
					err = s.Ping6(packet.Addr{MAC: hw(w.HostMAC), IP: w.HostLLA}, packet.Addr{MAC: hw(w.Clients[0]), IP: dst4(i)}, arg(p))
				case p.Script == "badfamily":
					err = s.Ping(packet.Addr{MAC: hw(w.Clients[0]), IP: dst6(i)}, arg(p))
				case p.V6:
					err = s.Ping6(packet.Addr{MAC: hw(w.HostMAC), IP: w.HostLLA}, packet.Addr{MAC: hw(w.Clients[0]), IP: dst6(i)}, arg(p))
				default:
					err = s.Ping(packet.Addr{MAC: hw(w.Clients[0]), IP: dst4(i)}, arg(p))
				}
			})
			mu.Lock()
			if pan != nil {
				err = fmt.Errorf("panic: %v", pan)
			}
			res[i].err, res[i].latency, res[i].done = err, time.Since(t0), true
			mu.Unlock()
		}(i, p)
	}
	// feeder: learn identifiers from the captured echo requests and play the scripts
	inject := func(v6 bool, typ byte, id uint16, cut int, hdr ...int) {
		fb := echoFrame(w, v6, typ, id)
		if len(hdr) > 0 && hdr[0] > 0 {
			fb = c19Frame(w, v6, typ, id, hdr[0])
		}
		if cut > 0 {
			fb = fb[:len(fb)-cut]
		}
		buf := make([]byte, packet.EthMaxSize)
		n := copy(buf, fb)
		if p, sig, _ := drv.Catch(func() { s.Parse(buf[:n]) }); p != nil {
			mu.Lock()
			problems = append(problems, fmt.Sprintf("c19-parse-%s: Parse of an injected echo frame (type %d id %d) panicked: %v", sig, typ, id, p))
			mu.Unlock()
		}
	}
	pendingLate := map[int]time.Time{}
	pendingDelayed := map[int]time.Time{}
	deadline := time.Now().Add(longest + 600*time.Millisecond)
	allDone := func() bool {
		mu.Lock()
		defer mu.Unlock()
		for i := range res {
			if !res[i].done {
				return false
			}
		}
		return true
	}
	for time.Now().Before(deadline) && !(allDone() && len(pendingLate) == 0 && len(pendingDelayed) == 0) {
		for _, f := range conn.Take() {
			d := ref.Decode(f.B)
			if (d.PayloadID != ref.PICMP4 && d.PayloadID != ref.PICMP6) || d.OffPayload+8 > len(f.B) {
				continue
			}
			typ := f.B[d.OffPayload]
			if typ != 8 && typ != 128 {
				continue
			}
			id := uint16(f.B[d.OffPayload+4])<<8 | uint16(f.B[d.OffPayload+5])
			idx := -1
			if d.DstIP.Is4() {
				idx = int(d.DstIP.As4()[3]) - 30
			} else {
				idx = int(d.DstIP.As16()[15]) - 30
			}
			if idx < 0 || idx >= len(sc.Pings) {
				continue
			}
			p := sc.Pings[idx]
			mu.Lock()
			res[idx].id = int(id)
			res[idx].injected = time.Since(start[idx])
			st := start[idx]
			mu.Unlock()
			reply := byte(0)
			request := byte(8)
			if p.V6 {
				reply, request = 129, 128
			}
			switch p.Script {
			case "early":
				inject(p.V6, reply, id, 0, p.Hdr)
			case "twice":
				inject(p.V6, reply, id, 0, p.Hdr)
				inject(p.V6, reply, id, 0, p.Hdr)
			case "othertype": // not an echo reply of this family, but the identifier sits at the same offset
				inject(p.V6, c19OtherTypes[p.V6][p.Alt%len(c19OtherTypes[p.V6])], id, 0, p.Hdr)
			case "foreign":
				inject(p.V6, reply, id+0x8000, 0)
				inject(!p.V6, map[bool]byte{true: 129, false: 0}[!p.V6], id+0x8000, 0)
			case "request":
				inject(p.V6, request, id, 0)
			case "truncated":
				inject(p.V6, reply, id, 8) // cut into the ICMP header: fewer than 8 ICMP bytes remain
			case "delayed": // the matching reply comes 400 ms after the request: other pings of the scenario time out meanwhile
				pendingDelayed[idx] = st.Add(400 * time.Millisecond)
				mu.Lock()
				res[idx].injected = 0
				mu.Unlock()
			case "late":
				pendingLate[idx] = st.Add(timeout(p) + 100*time.Millisecond)
			}
		}
		for idx, at := range pendingDelayed {
			if time.Now().After(at) {
				p := sc.Pings[idx]
				reply := byte(0)
				if p.V6 {
					reply = 129
				}
				mu.Lock()
				res[idx].injected = time.Since(start[idx])
				id := res[idx].id
				mu.Unlock()
				inject(p.V6, reply, uint16(id), 0, p.Hdr)
				delete(pendingDelayed, idx)
			}
		}
		for idx, at := range pendingLate {
			mu.Lock()
			returned := res[idx].done
			mu.Unlock()
			// "late" = after the call has returned (necessarily after its time-out): a reply that arrives while a
			// timed-out Ping goroutine is still waiting for the CPU may legitimately complete it
			if returned && time.Now().After(at) {
				p := sc.Pings[idx]
				reply := byte(0)
				if p.V6 {
					reply = 129
				}
				inject(p.V6, reply, uint16(res[idx].id), 0)
				delete(pendingLate, idx)
			}
		}
		time.Sleep(300 * time.Microsecond)
	}
	done := make(chan struct{})
	go func() { wg.Wait(); close(done) }()
	select {
	case <-done:
	case <-time.After(3 * time.Second):
		return res, []string{"c19-ping-never-returned: a Ping call did not return 3 s after its time-out"}, false, false
	}
	// judge
	ids := map[int]int{}
	negatives := 0
	for i, p := range sc.Pings {
		r := res[i]
		to := timeout(p)
		switch p.Script {
		case "badfamily":
			if r.err == nil {
				problems = append(problems, fmt.Sprintf("c19-badfamily-accepted: ping %d with a destination of the wrong address family returned nil", i))
			}
			continue
		case "early", "twice", "delayed", "instant":
			if r.id < 0 || r.injected == 0 || r.injected > to-300*time.Millisecond {
				inconclusive = true // the machine was too slow to play the script in time: no verdict
				continue
			}
			if r.err != nil {
				problems = append(problems, fmt.Sprintf("c19-matching-reply-ignored: ping %d (id %d, %s) got its echo reply %v after the request but returned %v after %v", i, r.id, p.Script, r.injected, r.err, r.latency))
			}
		default:
			negatives++
			if r.err == nil {
				problems = append(problems, fmt.Sprintf("c19-completed-without-matching-reply: ping %d (id %d) returned nil although its script was %q", i, r.id, p.Script))
			} else if r.err != packet.ErrTimeout {
				problems = append(problems, fmt.Sprintf("c19-wrong-error: ping %d returned %v, want ErrTimeout", i, r.err))
			} else if r.latency < to {
				problems = append(problems, fmt.Sprintf("c19-early-timeout: ping %d returned ErrTimeout after %v, time-out was %v", i, r.latency, to))
			}
		}
		if r.id >= 0 {
			if j, dup := ids[r.id]; dup {
				problems = append(problems, fmt.Sprintf("c19-duplicate-identifier: pings %d and %d both used identifier %d", j, i, r.id))
			}
			ids[r.id] = i
		}
	}
	nontrivial = len(sc.Pings) >= 2 && negatives >= 1
	return
}

func c19Run(tb drv.TB, rec *drv.Rec, sub string, b c19Batch) {
	drv.Begin("C19", sub, 'J', mustJSON(b), 60*time.Second)
	defer drv.End()
	type out struct {
		problems     []string
		inconclusive bool
		nontrivial   bool
	}
	outs := make([]out, len(b.Scenarios))
	var wg sync.WaitGroup
	for i, sc := range b.Scenarios {
		wg.Add(1)
		go func(i int, sc c19Scenario) {
			defer wg.Done()
			_, p, inc, nt := c19RunScenario(sc)
			outs[i] = out{p, inc, nt}
		}(i, sc)
	}
	wg.Wait()
	for i, o := range outs {
		rec.Eval()
		if o.inconclusive {
			rec.Class("inconclusive: script could not be played in time (machine load)")
		}
		for _, p := range o.problems {
			sig := p
			if k := indexByte(p, ':'); k > 0 {
				sig = p[:k]
			}
			if rec.Violation(tb, sub, sig, c19Batch{Scenarios: []c19Scenario{b.Scenarios[i]}}, "%s", p) {
				continue
			}
			return
		}
		for _, p := range b.Scenarios[i].Pings {
			rec.Class("script " + p.Script)
		}
		if o.nontrivial {
			rec.NonTrivial(drv.HashJSON(b.Scenarios[i]), func() interface{} { return b.Scenarios[i] })
		}
	}
	// every call has returned: no waiter may be left (the table is process wide, so this is checked per batch)
	if n := packet.VerifPingWaiters(); n != 0 {
		// find a scenario that leaves a waiter on its own, for the replay file
		for _, sc := range b.Scenarios {
			c19RunScenario(sc)
		}
		culprit := b
		for _, sc := range b.Scenarios {
			before := packet.VerifPingWaiters()
			c19RunScenario(sc)
			if packet.VerifPingWaiters() > before {
				culprit = c19Batch{Scenarios: []c19Scenario{sc}}
				break
			}
		}
		rec.Violation(tb, sub, "c19-waiter-left-behind", culprit, "%d ping waiters are still registered after every Ping call of the batch has returned", n)
	}
}

func indexByte(s string, c byte) int {
	for i := 0; i < len(s); i++ {
		if s[i] == c {
			return i
		}
	}
	return -1
}

// ICMP types that are not the echo reply of the family (true = ICMPv6); the first of each list is the other family's reply type
var c19OtherTypes = map[bool][]byte{false: {129, 128, 13, 14, 17, 18}, true: {0, 8, 1, 3, 4, 127}}

// c19Frame is echoFrame with a legitimate variation of the carrying header or of the echo data:
// 1 DF set, 2 IPv4 options (IHL 24) / IPv6 traffic class + flow label, 3 TOS + identification, 4 no echo data, 5 1000 bytes of echo data, 6 DF + options,
// 7 sequence number 0 instead of the request's, 8 sequence number 0xfffe
func c19Frame(w gen.World, v6 bool, typ byte, id uint16, hdr int) []byte {
	var rest [4]byte
	rest[0], rest[1], rest[3] = byte(id>>8), byte(id), 1
	data := []byte("HELLO")
	switch hdr {
	case 7: // the station does not echo the sequence number (the statement keys completion on the identifier alone)
		rest[2], rest[3] = 0, 0
	case 8:
		rest[2], rest[3] = 0xff, 0xfe
	case 4:
		data = nil
	case 5:
		data = make([]byte, 1000)
		for i := range data {
			data[i] = byte(i)
		}
	}
	if v6 {
		src, dst := netip.MustParseAddr("fe80::aa").As16(), w.HostLLA.As16()
		h := ref.IP6Hdr{PayloadLen: -1, Next: 58, HopLimit: 64, Src: src, Dst: dst}
		if hdr == 2 || hdr == 3 || hdr == 6 {
			h.Class, h.Flow = 0xb8, 0xabcde
		}
		return ref.Eth(w.HostMAC, w.Clients[0], 0x86dd, ref.IP6(h, ref.ICMP6(src, dst, typ, 0, append(rest[:], data...))))
	}
	h := ref.IP4Hdr{TotalLen: -1, TTL: 64, Proto: 1, Checksum: -1, Src: [4]byte{192, 168, 0, 5}, Dst: w.HostIP.As4()}
	switch hdr {
	case 1:
		h.Flags = 2
	case 2:
		h.IHL, h.Options = 24, []byte{1, 1, 1, 1}
	case 3:
		h.TOS, h.ID = 0xb8, 0x4242
	case 6:
		h.Flags, h.IHL, h.Options = 2, 28, []byte{1, 1, 1, 1, 1, 1, 1, 0}
	}
	return ref.Eth(w.HostMAC, w.Clients[0], 0x0800, ref.IP4(h, ref.ICMP(typ, 0, rest, data, true)))
}

func TestC19(t *testing.T) {
	rec := drv.For("C19", c19Rule)
	drv.Prop(t, rec, "batches", 6, 150, func(t *rapid.T) c19Batch {
		var b c19Batch
		for i := rapid.IntRange(8, 24).Draw(t, "nscenarios"); i > 0; i-- {
			var sc c19Scenario
			for k := rapid.IntRange(1, 8).Draw(t, "npings"); k > 0; k-- {
				script := rapid.SampledFrom([]string{"early", "early", "early", "twice", "delayed", "delayed", "foreign", "request", "othertype", "othertype", "truncated", "late", "none", "instant", "instant"}).Draw(t, "script")
				if rapid.IntRange(0, 19).Draw(t, "bad") == 0 {
					script = "badfamily"
				}
				sc.Pings = append(sc.Pings, c19Ping{V6: rapid.Bool().Draw(t, "v6"), Script: script, Hdr: rapid.SampledFrom([]int{0, 0, 1, 2, 3, 4, 5, 6, 7, 8}).Draw(t, "hdr"), Alt: rapid.IntRange(0, 5).Draw(t, "alt"), TO: rapid.SampledFrom([]int{0, 0, 0, 0, 1, 2}).Draw(t, "to")})
			}
			b.Scenarios = append(b.Scenarios, sc)
		}
		return b
	}, func(tb drv.TB, b c19Batch) { c19Run(tb, rec, "batches", b) })
	// The identifier is a 16-bit counter: the pings around its wrap-around (identifiers 65534, 65535, 0, 1, 2) must be
	// completed by their replies like any other. Identifiers are used up quickly with pings that fail at once (wrong
	// address family); where the counter stands is read from the echo request on the wire.
	type wrapCase struct {
		V6 bool `json:"v6"`
	}
	drv.Prop(t, rec, "wraparound", 1, 4, func(t *rapid.T) wrapCase { return wrapCase{V6: rapid.Bool().Draw(t, "v6")} }, func(tb drv.TB, c wrapCase) {
		rec.Eval()
		drv.Begin("C19", "wraparound", 'J', mustJSON(c), 120*time.Second)
		defer drv.End()
		w := gen.DefaultWorld()
		s, conn := newSession(defaultNIC())
		defer closeSession(s)
		// one ping whose reply comes as soon as the request is seen; returns the identifier used and the outcome
		one := func() (int, error) {
			conn.Take()
			done := make(chan error, 1)
			go func() {
				if c.V6 {
					done <- s.Ping6(packet.Addr{MAC: hw(w.HostMAC), IP: w.HostLLA}, packet.Addr{MAC: hw(w.Clients[0]), IP: netip.MustParseAddr("fe80::aa")}, time.Second)
				} else {
					done <- s.Ping(packet.Addr{MAC: hw(w.Clients[0]), IP: netip.MustParseAddr("192.168.0.5")}, time.Second)
				}
			}()
			id := -1
			deadline := time.Now().Add(900 * time.Millisecond)
			for id < 0 && time.Now().Before(deadline) {
				for _, f := range conn.Take() {
					d := ref.Decode(f.B)
					if (d.PayloadID == ref.PICMP4 || d.PayloadID == ref.PICMP6) && d.OffPayload+8 <= len(f.B) && (f.B[d.OffPayload] == 8 || f.B[d.OffPayload] == 128) {
						id = int(f.B[d.OffPayload+4])<<8 | int(f.B[d.OffPayload+5])
					}
				}
				if id < 0 {
					time.Sleep(200 * time.Microsecond)
				}
			}
			if id >= 0 {
				reply := byte(0)
				if c.V6 {
					reply = 129
				}
				fb := echoFrame(w, c.V6, reply, uint16(id))
				buf := make([]byte, packet.EthMaxSize)
				s.Parse(buf[:copy(buf, fb)])
			}
			return id, <-done
		}
		id, err := one()
		if id < 0 {
			rec.Class("inconclusive: echo request not seen in time")
			return
		}
		if err != nil {
			rec.Violation(tb, "wraparound", "c19-matching-reply-ignored", c, "ping with identifier %d got its reply at once but returned %v", id, err)
			return
		}
		// use up identifiers until the next one is 65534
		burn := (65534 - (id + 1) + 65536) % 65536
		for i := 0; i < burn; i++ {
			if c.V6 {
				s.Ping6(packet.Addr{MAC: hw(w.HostMAC), IP: w.HostLLA}, packet.Addr{MAC: hw(w.Clients[0]), IP: netip.MustParseAddr("192.168.0.5")}, time.Second)
			} else {
				s.Ping(packet.Addr{MAC: hw(w.Clients[0]), IP: netip.MustParseAddr("fe80::aa")}, time.Second)
			}
		}
		// six pings across the wrap-around, all pending at the same time ("concurrent pings use distinct identifiers"):
		// each is started once the previous one's request was seen, none is answered before all six are out
		var seen []int
		var dones []chan error
		for k := 0; k < 6; k++ {
			conn.Take()
			done := make(chan error, 1)
			dones = append(dones, done)
			go func() {
				if c.V6 {
					done <- s.Ping6(packet.Addr{MAC: hw(w.HostMAC), IP: w.HostLLA}, packet.Addr{MAC: hw(w.Clients[0]), IP: netip.MustParseAddr("fe80::aa")}, 5*time.Second)
				} else {
					done <- s.Ping(packet.Addr{MAC: hw(w.Clients[0]), IP: netip.MustParseAddr("192.168.0.5")}, 5*time.Second)
				}
			}()
			id := -1
			deadline := time.Now().Add(900 * time.Millisecond)
			for id < 0 && time.Now().Before(deadline) {
				for _, f := range conn.Take() {
					d := ref.Decode(f.B)
					if (d.PayloadID == ref.PICMP4 || d.PayloadID == ref.PICMP6) && d.OffPayload+8 <= len(f.B) && (f.B[d.OffPayload] == 8 || f.B[d.OffPayload] == 128) {
						id = int(f.B[d.OffPayload+4])<<8 | int(f.B[d.OffPayload+5])
					}
				}
				if id < 0 {
					time.Sleep(200 * time.Microsecond)
				}
			}
			if id < 0 {
				rec.Class("inconclusive: echo request not seen in time")
				for _, d := range dones {
					<-d
				}
				return
			}
			seen = append(seen, id)
		}
		dup := false
		for i := range seen {
			for j := 0; j < i; j++ {
				if seen[i] == seen[j] {
					dup = true
				}
			}
		}
		for _, id := range seen {
			reply := byte(0)
			if c.V6 {
				reply = 129
			}
			buf := make([]byte, packet.EthMaxSize)
			s.Parse(buf[:copy(buf, echoFrame(w, c.V6, reply, uint16(id)))])
		}
		var errs []error
		for _, d := range dones {
			errs = append(errs, <-d)
		}
		if dup {
			rec.Violation(tb, "wraparound", "c19-identifier-shared", c, "six pings pending at the same time across the wrap-around use the identifiers %v (outcomes %v)", seen, errs)
			return
		}
		for k, err := range errs {
			if err != nil {
				rec.Violation(tb, "wraparound", "c19-matching-reply-ignored", c, "ping with identifier %d (six pending pings around the wrap-around: %v) got its reply within its 5 s but returned %v", seen[k], seen, err)
				return
			}
		}
		wrapped := false
		for i := 1; i < len(seen); i++ {
			if seen[i] < seen[i-1] {
				wrapped = true
			}
		}
		rec.Class(fmt.Sprintf("wraparound: counter wrapped=%v", wrapped))
		if n := packet.VerifPingWaiters(); n != 0 {
			rec.Violation(tb, "wraparound", "c19-waiter-left-behind", c, "%d waiters left after the wrap-around pings", n)
			return
		}
		if wrapped {
			rec.NonTrivial(drv.HashJSON(c), func() interface{} { return map[string]interface{}{"v6": c.V6, "identifiers": seen} })
		}
	})

}
