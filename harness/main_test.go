//go:build verif

package harness

import (
	"io"
	"testing"

	"github.com/irai/packet/fastlog"
	"verifharness/drv"
)

func TestMain(m *testing.M) {
	// Library log lines go to fastlog.DefaultIOWriter; levels stay at their
	// defaults so that the logging code paths themselves are exercised.
	fastlog.DefaultIOWriter = io.Discard
	drv.Main(m)
}
