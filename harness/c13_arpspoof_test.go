//go:build verif

package harness

import (
	"fmt"
	"net/netip"
	"sort"
	"sync"
	"testing"
	"time"

	"github.com/irai/packet"
	arp "github.com/irai/packet/handlers/arp_spoofer"
	"pgregory.net/rapid"
	"verifharness/drv"
	"verifharness/gen"
	"verifharness/ref"
)

// C13 — ARP spoofing is confined to hunted hosts and undone on StopHunt.

const c13Rule = "(a) synchronous histories of StartHunt (also under another address of the station) / StopHunt / SetDHCPv4IPOffer / DHCPv4Update (the offer confirmed) and received ARP frames (request for the router, other requests, probes, announcements, replies, link-local, malformed) from hunted and non-hunted stations: the frames emitted by each received frame are compared with a model (spoof reply iff the sender is hunted and asks for the router; probe reject iff the prober holds a different IPv4 offer and the probed address is in the home LAN; nothing else), every forged frame goes to a MAC hunted at some point, one loop per MAC; (b) real-time scenarios (start/stop/close calls at drawn offsets within 8 s for 1..3 targets, observed for 15 s, many scenarios concurrently): forged frames only to recently hunted MACs, a forged frame within 2 s of StartHunt and then at least every 9 s while hunted, a restoring ARP within one 6 s cycle (+2 s) after StopHunt, silence 1 s after StopHunt / Close. non-trivial = history with a StopHunt of a started target (a) / scenario observed for >= 7 s after a stop (b); distinct by hash of the history"

type c13Op struct {
	K    string `json:"k"`              // start stop offer rx settle
	T    int    `json:"t,omitempty"`    // target / station index 0..3 (clients)
	Kind string `json:"kind,omitempty"` // rx: req-router req-other probe announce reply linklocal badhtype
	IP   int    `json:"ip,omitempty"`   // rx / offer: address index
	Eth  int    `json:"eth,omitempty"`  // rx: ethernet source differs from the ARP sender (index+1, 0 = same)
	SIP  int    `json:"sip,omitempty"`  // rx: ARP sender IP is another station's address (index+1, 0 = the sender's own; 5, 6 = addresses outside the home LAN): address conflict / takeover
}

type c13Case struct {
	Ops []c13Op `json:"ops"`
}

func c13IP(i int) netip.Addr {
	switch i {
	case 0, 1, 2, 3:
		return netip.AddrFrom4([4]byte{192, 168, 0, byte(20 + i)})
	case 4:
		return netip.MustParseAddr("192.168.0.11") // router
	case 5:
		return netip.MustParseAddr("8.8.8.8") // off LAN
	case 6:
		return netip.MustParseAddr("192.168.0.99") // on LAN, nobody's
	case 8:
		return netip.MustParseAddr("192.168.1.2") // private, next door to the home LAN
	case 9:
		return netip.MustParseAddr("10.0.0.2") // private, off LAN
	case 10:
		return netip.MustParseAddr("172.20.1.1") // private, off LAN
	}
	return netip.MustParseAddr("192.168.0.129") // host
}

// forged reports whether an emitted ARP frame claims the router's IP for our MAC.
func forged(in sentInfo, w gen.World) bool {
	return in.kind == "arp" && netip.AddrFrom4(in.arp.SPA) == w.RouterIP && in.arp.SHA == w.HostMAC
}

func c13RunSync(tb drv.TB, rec *drv.Rec, sub string, c c13Case) {
	rec.Eval()
	drv.Begin("C13", sub, 'J', mustJSON(c), 60*time.Second)
	defer drv.End()
	w := gen.DefaultWorld()
	s, conn := newSession(defaultNIC())
	defer closeSession(s)
	h, err := arp.New(s)
	if err != nil {
		tb.Fatalf("arp.New: %v", err)
	}
	defer h.Close()
	hunted := map[ref.MAC]bool{}
	ever := map[ref.MAC]bool{}
	offer := map[ref.MAC]netip.Addr{}
	startsSinceStop := map[ref.MAC]int{}
	announcements := map[ref.MAC]int{}
	stoppedAStarted := false
	fail := func(step int, sig, format string, args ...interface{}) bool {
		return rec.Violation(tb, sub, sig, c, "step %d (%+v): %s", step, c.Ops[step], fmt.Sprintf(format, args...))
	}
	buf := make([]byte, packet.EthMaxSize)
	// judge drains the connection: loop frames (op 1 announcements) are attributed, anything else is returned
	judge := func(step int) (rest []sentInfo, ok bool) {
		for _, f := range conn.Take() {
			in, sig, msg := decodeSent(f.B, w.HostMAC, false)
			if sig != "" {
				fail(step, sig+"@arp-spoofer", "%s", msg)
				return nil, false
			}
			if in.kind == "arp" && in.arp.Op == 1 && forged(in, w) { // the hunt loop's announcement
				if !ever[in.eth.Dst] {
					fail(step, "c13-forged-to-never-hunted", "forged announcement sent to %x which was never hunted", in.eth.Dst)
					return nil, false
				}
				announcements[in.eth.Dst]++
				continue
			}
			if in.kind == "arp" && in.arp.Op == 1 && in.arp.SHA == w.RouterMAC && netip.AddrFrom4(in.arp.SPA) == w.RouterIP { // the loop's restoring ARP after a stop
				if !ever[in.eth.Dst] {
					fail(step, "c13-restore-to-never-hunted", "restoring ARP sent to %x which was never hunted", in.eth.Dst)
					return nil, false
				}
				continue
			}
			rest = append(rest, in)
		}
		return rest, true
	}
	for step, op := range c.Ops {
		mac := w.Clients[op.T%4]
		// an offer is part of the station's MAC entry: it is gone once the entry was deleted (the station's last
		// address was re-bound to another station), even if the entry is created again later
		for m := range offer {
			if s.FindMACEntry(hw(m)) == nil {
				delete(offer, m)
			}
		}
		switch op.K {
		case "start":
			startIP := c13IP(op.T % 4)
			if op.IP == 99 { // the station is hunted again under another address of its own (e.g. after a DHCP renewal)
				startIP = netip.AddrFrom4([4]byte{192, 168, 0, byte(150 + op.T%4)})
			}
			_, err := h.StartHunt(packet.Addr{MAC: hw(mac), IP: startIP})
			if err != nil {
				fail(step, "c13-starthunt-error", "StartHunt returned %v", err)
				return
			}
			hunted[mac], ever[mac] = true, true
			startsSinceStop[mac]++
		case "stop":
			if hunted[mac] {
				stoppedAStarted = true
			}
			h.StopHunt(packet.Addr{MAC: hw(mac), IP: c13IP(op.T % 4)})
			delete(hunted, mac)
			startsSinceStop[mac] = 0
		case "offer":
			s.SetDHCPv4IPOffer(hw(mac), c13IP(op.IP), packet.NameEntry{})
			offer[mac] = c13IP(op.IP)
		case "confirm": // the DHCP handler acknowledged this address: it replaces whatever was on offer (the station may already be online there)
			if err := s.DHCPv4Update(hw(mac), c13IP(op.IP), packet.NameEntry{}); err != nil {
				fail(step, "c13-dhcp-update-error", "DHCPv4Update returned %v", err)
				return
			}
			for len(s.C) > 0 {
				<-s.C
			}
			offer[mac] = c13IP(op.IP)
		case "settle":
			time.Sleep(2 * time.Millisecond)
		case "rx":
			if _, ok := judge(step); !ok { // clear what the loops sent so far
				return
			}
			p := ref.ARPPkt{HType: 1, PType: 0x0800, HLen: 6, PLen: 4, Op: 1, SHA: mac, SPA: c13IP(op.T % 4).As4(), TPA: c13IP(op.IP).As4()}
			switch {
			case op.SIP >= 1 && op.SIP <= 4:
				p.SPA = c13IP(op.SIP - 1).As4()
			case op.SIP == 5: // a sender address outside the home LAN: Parse attaches no host to such a frame
				p.SPA = [4]byte{10, 10, 10, 2}
			case op.SIP == 6:
				p.SPA = [4]byte{8, 8, 8, 8}
			}
			expectSpoof, expectReject := false, false
			switch op.Kind {
			case "req-router":
				p.TPA = w.RouterIP.As4()
				expectSpoof = hunted[mac]
			case "req-other":
				expectSpoof = hunted[mac] && c13IP(op.IP) == w.RouterIP
				if netip.AddrFrom4(p.SPA) == netip.AddrFrom4(p.TPA) {
					expectSpoof = false // that is an announcement
				}
			case "probe":
				p.SPA = [4]byte{}
				// the outstanding offer is what the session holds for the prober right now (a MAC entry, and with it
				// the offer, disappears when the last address of that MAC is re-bound to another station)
				// (the MAC entry is looked up, the offer itself is the harness's own record of SetDHCPv4IPOffer)
				o := offer[mac]
				if s.FindMACEntry(hw(mac)) == nil {
					o = netip.Addr{}
					delete(offer, mac)
				}
				expectReject = o.Is4() && o != c13IP(op.IP) && w.LAN.Contains(c13IP(op.IP))
			case "announce":
				p.TPA = p.SPA
			case "reply":
				p.Op = 2
				p.THA = w.HostMAC
			case "linklocal":
				p.SPA = [4]byte{169, 254, 1, 1}
				p.TPA = w.RouterIP.As4()
			case "badhtype":
				p.HType = 6
				p.TPA = w.RouterIP.As4()
			}
			eth := mac
			if op.Eth > 0 {
				eth = w.Clients[(op.Eth-1)%4]
			}
			n := copy(buf, ref.Eth(ref.MAC{0xff, 0xff, 0xff, 0xff, 0xff, 0xff}, eth, 0x0806, ref.ARP(p)))
			if pn, sig, st := drv.Catch(func() {
				fr, err := s.Parse(buf[:n])
				if err == nil && fr.PayloadID == packet.PayloadARP {
					h.ProcessPacket(fr)
				}
				s.Notify(fr)
			}); pn != nil {
				fail(step, sig, "ARP processing panicked: %v\n%s", pn, st)
				return
			}
			for len(s.C) > 0 {
				<-s.C
			}
			rest, ok := judge(step)
			if !ok {
				return
			}
			want := 0
			if expectSpoof || expectReject {
				want = 1
			}
			if len(rest) != want {
				sig := "c13-unexpected-frame"
				if len(rest) < want {
					sig = "c13-missing-reply"
				}
				fail(step, sig, "%d frames emitted in reply, want %d (hunted=%v offer=%v)", len(rest), want, hunted[mac], offer[mac])
				return
			}
			if want == 1 {
				in := rest[0]
				exp := ref.ARPPkt{HType: 1, PType: 0x0800, HLen: 6, PLen: 4, Op: 2, SHA: w.HostMAC, THA: mac}
				if expectSpoof {
					exp.SPA, exp.TPA = w.RouterIP.As4(), p.SPA
				} else {
					exp.SPA, exp.TPA = p.TPA, [4]byte{255, 255, 255, 255}
				}
				if in.arp != exp || in.eth.Dst != mac {
					fail(step, "c13-reply-content", "reply %+v to %x, want %+v to %x", in.arp, in.eth.Dst, exp, mac)
					return
				}
			}
			rec.Class(fmt.Sprintf("rx %s hunted=%v -> spoof=%v reject=%v", op.Kind, hunted[mac], expectSpoof, expectReject))
		}
	}
	// one loop per MAC: let every loop send its first announcement, then count
	time.Sleep(3 * time.Millisecond)
	if _, ok := judge(len(c.Ops) - 1); !ok {
		return
	}
	for mac, n := range startsSinceStop {
		if n >= 2 && announcements[mac] > countStarts(c, w, mac) {
			fail(len(c.Ops)-1, "c13-duplicate-loop", "%d first announcements to %x after %d start/stop episodes: StartHunt of an already hunted MAC started another loop", announcements[mac], mac, countStarts(c, w, mac))
			return
		}
	}
	if stoppedAStarted {
		rec.NonTrivial(drv.HashJSON(c), func() interface{} { return c })
	}
}

// countStarts is the number of hunt episodes of mac (a start while already hunted does not begin a new one).
func countStarts(c c13Case, w gen.World, mac ref.MAC) int {
	n, on := 0, false
	for _, op := range c.Ops {
		if w.Clients[op.T%4] != mac {
			continue
		}
		if op.K == "start" && !on {
			n, on = n+1, true
		}
		if op.K == "stop" {
			on = false
		}
	}
	return n
}

// ---- (b) real time

type rtCall struct {
	At  int    `json:"at_ms"`
	K   string `json:"k"` // start stop close
	T   int    `json:"t"`
	Alt bool   `json:"alt,omitempty"` // start: under another address of the station's own (it moved while hunted / before being hunted again)
}

type rtScenario struct {
	Calls []rtCall `json:"calls"`
}

type rtBatch struct {
	Scenarios []rtScenario `json:"scenarios"`
}

type rtEvent struct {
	at time.Duration
	k  string
	t  int
}

func c13RunScenarioRT(sc rtScenario, observe time.Duration) (problems []string, nontrivial bool) {
	w := gen.DefaultWorld()
	s, conn := newSession(defaultNIC())
	defer closeSession(s)
	h, _ := arp.New(s)
	defer h.Close()
	t0 := time.Now()
	var log []rtEvent // completion times of the calls
	calls := append([]rtCall(nil), sc.Calls...)
	sort.SliceStable(calls, func(i, j int) bool { return calls[i].At < calls[j].At })
	for _, c := range calls {
		if d := time.Duration(c.At)*time.Millisecond - time.Since(t0); d > 0 {
			time.Sleep(d)
		}
		mac := w.Clients[c.T%4]
		switch c.K {
		case "start":
			ip := c13IP(c.T % 4)
			if c.Alt {
				ip = netip.AddrFrom4([4]byte{192, 168, 0, byte(150 + c.T%4)})
			}
			h.StartHunt(packet.Addr{MAC: hw(mac), IP: ip})
		case "stop":
			h.StopHunt(packet.Addr{MAC: hw(mac), IP: c13IP(c.T % 4)})
		case "close":
			h.Close()
		case "claim": // another station (never hunted) announces the router's address as its own: the session re-binds the address
			f := ref.Eth(ref.MAC{0xff, 0xff, 0xff, 0xff, 0xff, 0xff}, w.Clients[3], 0x0806, ref.ARP(ref.ARPPkt{HType: 1, PType: 0x0800, HLen: 6, PLen: 4, Op: 1, SHA: w.Clients[3], SPA: w.RouterIP.As4(), TPA: w.RouterIP.As4()}))
			buf := make([]byte, packet.EthMaxSize)
			if fr, err := s.Parse(buf[:copy(buf, f)]); err == nil && fr.PayloadID == packet.PayloadARP {
				h.ProcessPacket(fr)
			}
			for len(s.C) > 0 {
				<-s.C
			}
		}
		log = append(log, rtEvent{time.Since(t0), c.K, c.T % 4})
	}
	if d := observe - time.Since(t0); d > 0 {
		time.Sleep(d)
	}
	end := time.Since(t0)
	frames := conn.Take()
	// intervals in which each target was hunted, and the close time
	type span struct{ from, to time.Duration }
	spans := map[int][]span{}
	open := map[int]time.Duration{}
	closedAt := time.Duration(-1)
	for _, e := range log {
		switch e.k {
		case "start":
			if closedAt >= 0 {
				break
			}
			if _, on := open[e.t]; !on {
				open[e.t] = e.at - 50*time.Millisecond // the call may have taken effect any time before it returned
			}
		case "stop":
			if from, on := open[e.t]; on {
				spans[e.t] = append(spans[e.t], span{from, e.at})
				delete(open, e.t)
			}
		case "close":
			if closedAt < 0 {
				closedAt = e.at
			}
		}
	}
	for t, from := range open {
		spans[t] = append(spans[t], span{from, end + time.Hour})
	}
	huntedWithin := func(t int, lo, hi time.Duration) bool {
		for _, sp := range spans[t] {
			if sp.from <= hi && sp.to >= lo {
				return true
			}
		}
		return false
	}
	idx := map[ref.MAC]int{}
	for i, m := range w.Clients {
		idx[m] = i
	}
	type restore struct{ at time.Duration }
	restores := map[int][]time.Duration{}
	forgedAt := map[int][]time.Duration{}
	for _, f := range frames {
		at := f.At.Sub(t0)
		in, sig, msg := decodeSent(f.B, w.HostMAC, false)
		if sig != "" {
			problems = append(problems, sig+"@arp-spoofer: "+msg)
			continue
		}
		t, known := idx[in.eth.Dst]
		if forged(in, w) {
			if !known || !huntedWithin(t, at-time.Second, at) {
				problems = append(problems, fmt.Sprintf("c13-forged-to-not-hunted: forged ARP to %x at %v, which was not hunted in the second before (spans %v)", in.eth.Dst, at, spans[t]))
			}
			if closedAt >= 0 && at > closedAt+time.Second {
				problems = append(problems, fmt.Sprintf("c13-frame-after-close: forged ARP at %v, handler closed at %v", at, closedAt))
			}
			if known {
				forgedAt[t] = append(forgedAt[t], at)
			}
			continue
		}
		if in.kind == "arp" && in.arp.SHA == w.RouterMAC && netip.AddrFrom4(in.arp.SPA) == w.RouterIP && known {
			restores[t] = append(restores[t], at)
		}
	}
	// "periodically while hunted": from the start of a hunt to its end (StopHunt, Close or the end of the observation)
	// the target gets a forged packet at once and then at least every cycle (6 s; 3 s of slack for a busy machine)
	const firstBy, cycleMax = 2 * time.Second, 9 * time.Second
	for t, sps := range spans {
		for _, sp := range sps {
			from, to := sp.from+50*time.Millisecond, sp.to
			if to > end {
				to = end
			}
			if closedAt >= 0 && closedAt < to {
				to = closedAt
			}
			if to-from < firstBy {
				continue
			}
			last := time.Duration(-1)
			for _, at := range forgedAt[t] { // in transmission order
				if at < from-100*time.Millisecond || at > to {
					continue
				}
				if last < 0 && at-from > firstBy {
					break
				}
				if last >= 0 && at-last > cycleMax {
					problems = append(problems, fmt.Sprintf("c13-hunt-lapsed: target %d hunted from %v to %v got no forged ARP between %v and %v", t, from, to, last, at))
				}
				last = at
			}
			switch {
			case last < 0:
				problems = append(problems, fmt.Sprintf("c13-hunt-never-started: target %d hunted from %v to %v got no forged ARP within %v of StartHunt (forged at %v)", t, from, to, firstBy, forgedAt[t]))
			case to-last > cycleMax:
				problems = append(problems, fmt.Sprintf("c13-hunt-lapsed: target %d hunted from %v to %v got its last forged ARP at %v", t, from, to, last))
			}
		}
	}
	// after every completed StopHunt: a restoring ARP within one cycle, unless the handler was closed or the target re-hunted meanwhile
	for _, e := range log {
		if e.k != "stop" {
			continue
		}
		wasHunted := false
		for _, sp := range spans[e.t] {
			if sp.to == e.at {
				wasHunted = true
			}
		}
		if !wasHunted {
			continue
		}
		window := e.at + 8*time.Second
		if window > end {
			continue // not observed long enough
		}
		nontrivial = true
		exempt := closedAt >= 0 && closedAt <= window
		for _, sp := range spans[e.t] {
			if sp.from > e.at-time.Second && sp.from <= window && sp.to != e.at {
				exempt = true // hunted again within the cycle: the loop never noticed the stop
			}
		}
		if exempt {
			continue
		}
		got := false
		for _, at := range restores[e.t] {
			if at > e.at-50*time.Millisecond && at <= window {
				got = true
			}
		}
		if !got {
			problems = append(problems, fmt.Sprintf("c13-no-restore-after-stop: StopHunt of target %d returned at %v; no ARP restoring the router's MAC reached it by %v (restores %v)", e.t, e.at, window, restores[e.t]))
		}
	}
	return
}

func rtRunBatch(tb drv.TB, rec *drv.Rec, prop, sub string, b rtBatch, run func(rtScenario, time.Duration) ([]string, bool)) {
	drv.Begin(prop, sub, 'J', mustJSON(b), 90*time.Second)
	defer drv.End()
	type out struct {
		problems []string
		nt       bool
	}
	outs := make([]out, len(b.Scenarios))
	var wg sync.WaitGroup
	for i, sc := range b.Scenarios {
		wg.Add(1)
		go func(i int, sc rtScenario) {
			defer wg.Done()
			p, nt := run(sc, 17*time.Second)
			outs[i] = out{p, nt}
		}(i, sc)
	}
	wg.Wait()
	for i, o := range outs {
		rec.Eval()
		for _, p := range o.problems {
			sig := p
			if k := indexByte(p, ':'); k > 0 {
				sig = p[:k]
			}
			if rec.Violation(tb, sub, sig, rtBatch{Scenarios: []rtScenario{b.Scenarios[i]}}, "%s", p) {
				continue
			}
			return
		}
		if o.nt {
			rec.NonTrivial(drv.HashJSON(b.Scenarios[i]), func() interface{} { return b.Scenarios[i] })
		}
	}
}

func genRTBatch(t *rapid.T, nmin, nmax int, withClose bool) rtBatch {
	var b rtBatch
	for i := rapid.IntRange(nmin, nmax).Draw(t, "nscenarios"); i > 0; i-- {
		var sc rtScenario
		ntargets := rapid.IntRange(1, 3).Draw(t, "ntargets")
		for k := rapid.IntRange(2, 8).Draw(t, "ncalls"); k > 0; k-- {
			kind := rapid.SampledFrom([]string{"start", "start", "start", "stop", "stop", "stop", "claim"}).Draw(t, "k")
			sc.Calls = append(sc.Calls, rtCall{At: rapid.IntRange(0, 8000).Draw(t, "at"), K: kind, T: rapid.IntRange(0, ntargets-1).Draw(t, "t"), Alt: kind == "start" && rapid.IntRange(0, 2).Draw(t, "alt") == 0})
		}
		if withClose && rapid.IntRange(0, 3).Draw(t, "close") == 0 {
			sc.Calls = append(sc.Calls, rtCall{At: rapid.IntRange(0, 9000).Draw(t, "closeAt"), K: "close"})
		}
		b.Scenarios = append(b.Scenarios, sc)
	}
	return b
}

func TestC13(t *testing.T) {
	rec := drv.For("C13", c13Rule)
	drv.Prop(t, rec, "sync", 600, 15000, func(t *rapid.T) c13Case {
		var c c13Case
		for i := rapid.IntRange(3, 30).Draw(t, "nops"); i > 0; i-- {
			op := c13Op{K: rapid.SampledFrom([]string{"start", "start", "stop", "offer", "confirm", "rx", "rx", "rx", "rx", "rx", "settle"}).Draw(t, "k"), T: rapid.IntRange(0, 3).Draw(t, "t")}
			switch op.K {
			case "start":
				if rapid.IntRange(0, 2).Draw(t, "altIP") == 0 {
					op.IP = 99
				}
			case "offer":
				op.IP = rapid.SampledFrom([]int{0, 1, 2, 3, 6}).Draw(t, "ip")
			case "confirm":
				op.IP = rapid.SampledFrom([]int{op.T, op.T, 0, 1, 2, 3, 6}).Draw(t, "ip")
			case "rx":
				op.Kind = rapid.SampledFrom([]string{"req-router", "req-router", "req-other", "probe", "probe", "announce", "reply", "linklocal", "badhtype"}).Draw(t, "kind")
				op.IP = rapid.IntRange(0, 10).Draw(t, "ip")
				if rapid.IntRange(0, 5).Draw(t, "otherEth") == 0 {
					op.Eth = rapid.IntRange(1, 4).Draw(t, "eth")
				}
				if rapid.IntRange(0, 3).Draw(t, "otherSIP") == 0 {
					op.SIP = rapid.IntRange(1, 6).Draw(t, "sip")
				}
			}
			c.Ops = append(c.Ops, op)
		}
		return c
	}, func(tb drv.TB, c c13Case) { c13RunSync(tb, rec, "sync", c) })

	drv.Prop(t, rec, "realtime", 1, 8, func(t *rapid.T) rtBatch { return genRTBatch(t, 12, 24, true) },
		func(tb drv.TB, b rtBatch) { rtRunBatch(tb, rec, "C13", "realtime", b, c13RunScenarioRT) })
}
