package gen

import (
	"fmt"
	"strings"

	"pgregory.net/rapid"
	"verifharness/ref"
)

// Application-level payload generators (DNS, mDNS, NBNS, SSDP, DHCP, NDP, ICMP).

var labelRunes = []rune("abcdefghijklmnopqrstuvwxyz0123456789-_")

// Label draws one DNS label (1..63 bytes; host-name characters mostly, any byte except '.' otherwise).
func Label(t *rapid.T) string {
	if rapid.IntRange(0, 11).Draw(t, "wordlabel") == 0 { // labels that are words of the naming schemes themselves, in either case
		return rapid.SampledFrom([]string{"local", "LOCAL", "Local", "arpa", "in-addr", "_tcp", "_udp", "com", "lan", "sleep-proxy"}).Draw(t, "word")
	}
	n := rapid.OneOf(rapid.IntRange(1, 8), rapid.IntRange(1, 8), rapid.IntRange(1, 63)).Draw(t, "labellen")
	if rapid.IntRange(0, 9).Draw(t, "binlabel") == 0 {
		b := Bytes(t, n, "labelbytes")
		for i := range b {
			if b[i] == '.' {
				b[i] = '_'
			}
		}
		return string(b)
	}
	return rapid.StringOfN(rapid.RuneFrom(labelRunes), n, n, n).Draw(t, "label")
}

// NamePool draws a small pool of names that share suffixes (so compression has something to point at)
// and names that extend other names (so pointer chains get deep).
func NamePool(t *rapid.T, n int) []ref.Name {
	var pool []ref.Name
	base := ref.Name{rapid.SampledFrom([]string{"local", "com", "lan", "arpa"}).Draw(t, "tld")}
	if base[0] == "arpa" {
		base = ref.Name{"in-addr", "arpa"}
	}
	for i := 0; i < n; i++ {
		var nm ref.Name
		switch rapid.IntRange(0, 5).Draw(t, "nameKind") {
		case 0: // fresh
			for k := rapid.IntRange(1, 4).Draw(t, "nl"); k > 0; k-- {
				nm = append(nm, Label(t))
			}
			nm = append(nm, base...)
		case 1, 2: // extend an existing name (creates chains under suffix compression)
			if len(pool) > 0 {
				p := pool[rapid.IntRange(0, len(pool)-1).Draw(t, "ext")]
				nm = append(ref.Name{Label(t)}, p...)
			} else {
				nm = append(ref.Name{Label(t)}, base...)
			}
		case 3: // reverse-lookup owner
			nm = ref.Name{fmt.Sprint(rapid.IntRange(0, 255).Draw(t, "d")), fmt.Sprint(rapid.IntRange(0, 255).Draw(t, "c")), fmt.Sprint(rapid.IntRange(0, 255).Draw(t, "b")), fmt.Sprint(rapid.IntRange(0, 255).Draw(t, "a")), "in-addr", "arpa"}
		case 4: // many labels
			for k := rapid.IntRange(5, 40).Draw(t, "many"); k > 0; k-- {
				nm = append(nm, string(rune('a'+k%26)))
			}
			nm = append(nm, base...)
		default: // a name at (or next to) the 255 octet limit of RFC 1035 2.3.4, built from labels of drawn sizes
			target := rapid.SampledFrom([]int{255, 255, 254, 253, 252, 200}).Draw(t, "wirelen")
			nm = append(nm, base...)
			style := rapid.IntRange(0, 2).Draw(t, "lblstyle")
			for nm.WireLen() < target {
				room := target - nm.WireLen() - 1
				l := room
				switch style {
				case 0:
					l = 1
				case 1:
					l = 63
				default:
					l = rapid.IntRange(1, 63).Draw(t, "ll")
				}
				if l > room {
					l = room
				}
				if l > 63 {
					l = 63
				}
				if l <= 0 {
					break
				}
				nm = append(ref.Name{strings.Repeat(string(rune('a'+len(nm)%26)), l)}, nm...)
			}
		}
		for nm.WireLen() > 255 && len(nm) > 1 {
			nm = nm[1:]
		}
		pool = append(pool, nm)
	}
	return pool
}

// DNSOptions steers the record mix.
type DNSOptions struct {
	MDNS     bool // mDNS style: .local names, TXT/SRV/NSEC/OPT records, all sections used
	Response bool
}

// DNSMsg draws a well-formed DNS message structure.
func DNSMsg(t *rapid.T, o DNSOptions) ref.Msg {
	pool := NamePool(t, rapid.IntRange(1, 6).Draw(t, "npool"))
	pick := func(l string) ref.Name { return pool[rapid.IntRange(0, len(pool)-1).Draw(t, l)] }
	m := ref.Msg{ID: rapid.Uint16().Draw(t, "id")}
	if o.Response {
		m.Flags = 0x8000 | uint16(rapid.SampledFrom([]int{0x0180, 0x0400, 0x0000, 0x0183}).Draw(t, "flags"))
	} else {
		m.Flags = uint16(rapid.SampledFrom([]int{0x0100, 0x0000}).Draw(t, "qflags"))
	}
	nq := 1
	if o.MDNS {
		nq = rapid.SampledFrom([]int{0, 1, 1, 2, 3}).Draw(t, "nq")
	}
	for i := 0; i < nq; i++ {
		m.Questions = append(m.Questions, ref.Question{Name: pick("qname"), Type: rapid.SampledFrom([]uint16{1, 28, 12, 255, 33, 16}).Draw(t, "qtype"), Class: rapid.SampledFrom([]uint16{1, 1, 0x8001, 255}).Draw(t, "qclass")})
	}
	if !o.Response {
		return m
	}
	rr := func(l string) ref.RR {
		types := []uint16{1, 1, 28, 28, 5, 12, 15, 2, 6}
		if o.MDNS {
			types = []uint16{1, 1, 28, 28, 12, 12, 33, 16, 16, 47, 41, 99, 5}
		}
		r := ref.RR{Name: pick(l + "owner"), Type: rapid.SampledFrom(types).Draw(t, l+"type"), Class: rapid.SampledFrom([]uint16{1, 1, 0x8001}).Draw(t, l+"class"), TTL: rapid.Uint32().Draw(t, l+"ttl")}
		switch r.Type {
		case 1:
			copy(r.A[:], Bytes(t, 4, l+"a"))
		case 28:
			copy(r.AAAA[:], Bytes(t, 16, l+"aaaa"))
			switch rapid.IntRange(0, 7).Draw(t, l+"aaaaShape") { // address shapes a 16-byte draw never hits
			case 0: // IPv4-mapped: still an AAAA record
				r.AAAA = [16]byte{10: 0xff, 11: 0xff, 12: 192, 13: 168, 14: 0, 15: r.AAAA[15]}
			case 1:
				r.AAAA = [16]byte{} // ::
			case 2:
				r.AAAA = [16]byte{0: 0xfe, 1: 0x80, 15: r.AAAA[15]}
			}
		case 5, 12, 2:
			r.Target = pick(l + "target")
		case 16:
			n := rapid.IntRange(0, 5).Draw(t, l+"ntxt")
			for i := 0; i < n; i++ {
				r.TXT = append(r.TXT, rapid.SampledFrom([]string{"model=MacBookPro14,1", "ty=Brother HL", "md=Chromecast", "DvTy=iPhone", "osxvers=20", "a=b", "novalue", "", "k=v=w"}).Draw(t, l+"txt"))
			}
			if n == 0 {
				r.Raw = []byte{0}
			}
		case 33:
			r.SRV = [3]uint16{rapid.Uint16().Draw(t, l+"prio"), rapid.Uint16().Draw(t, l+"weight"), rapid.Uint16().Draw(t, l+"port")}
			r.Target = pick(l + "srvtarget")
		case 15: // MX
			r.Raw = append([]byte{0, 10}, ref.EncodeName(pick(l+"mx"))...)
		case 47: // NSEC: next name + type bitmap
			r.Raw = append(ref.EncodeName(pick(l+"nsec")), 0, 4, 0x40, 0, 0, 8)
		case 41: // OPT (owner must be root for a valid OPT; drawn either way)
			if rapid.Bool().Draw(t, l+"optroot") {
				r.Name = ref.Name{}
			}
			r.Raw = Bytes(t, rapid.SampledFrom([]int{0, 4, 12}).Draw(t, l+"optlen"), l+"opt")
			if len(r.Raw) >= 4 {
				r.Raw[2], r.Raw[3] = 0, byte(len(r.Raw)-4)
			}
		case 6: // SOA-ish blob
			r.Raw = Bytes(t, rapid.IntRange(0, 40).Draw(t, l+"soalen"), l+"soa")
		default:
			r.Raw = Bytes(t, rapid.IntRange(0, 30).Draw(t, l+"rawlen"), l+"raw")
		}
		return r
	}
	for i := rapid.IntRange(0, 5).Draw(t, "nan"); i > 0; i-- {
		m.Answers = append(m.Answers, rr("an"))
	}
	if rapid.IntRange(0, 7).Draw(t, "ladder") == 0 {
		// a ladder of owner names, each one label longer than the previous: under suffix compression the k-th owner is
		// reached through k pointers (RFC 1035 sets no limit below what 255 octets allow)
		base := ref.Name{"lan"}
		if len(m.Questions) > 0 && m.Questions[0].Name.WireLen() <= 60 {
			base = m.Questions[0].Name
		}
		cur := base
		for k, depth := 0, rapid.IntRange(3, 40).Draw(t, "ladderDepth"); k < depth; k++ {
			cur = append(ref.Name{"l" + fmt.Sprint(k)}, cur...)
			if cur.WireLen() > 250 {
				break
			}
			r := ref.RR{Name: cur, Type: 1, Class: 1, TTL: 60}
			r.A = [4]byte{10, 9, byte(k), 1}
			m.Answers = append(m.Answers, r)
		}
	}
	if o.MDNS || rapid.IntRange(0, 3).Draw(t, "useAuth") == 0 {
		for i := rapid.IntRange(0, 3).Draw(t, "nns"); i > 0; i-- {
			m.Authority = append(m.Authority, rr("ns"))
		}
		for i := rapid.IntRange(0, 4).Draw(t, "nar"); i > 0; i-- {
			m.Additional = append(m.Additional, rr("ar"))
		}
	}
	return m
}

// CorruptDNS applies count / length / pointer corruption to an encoded message.
func CorruptDNS(t *rapid.T, b []byte) ([]byte, string) {
	b = append([]byte(nil), b...)
	if len(b) < 12 {
		return b, "short"
	}
	switch rapid.IntRange(0, 7).Draw(t, "dnsCorrupt") {
	case 7: // RDLENGTH of a record (preferably the last one) set to a few bytes, the message ending right behind them
		skipName := func(pos int) int {
			for pos < len(b) {
				switch l := int(b[pos]); {
				case l == 0:
					return pos + 1
				case l&0xc0 == 0xc0:
					return pos + 2
				case l&0xc0 != 0:
					return -1
				default:
					pos += 1 + l
				}
			}
			return -1
		}
		pos := 12
		for q := int(b[4])<<8 | int(b[5]); q > 0 && pos > 0; q-- {
			if pos = skipName(pos); pos > 0 {
				pos += 4
			}
		}
		var rdl []int // offsets of the RDLENGTH fields
		for pos > 0 && pos < len(b) {
			if pos = skipName(pos); pos < 0 || pos+10 > len(b) {
				break
			}
			rdl = append(rdl, pos+8)
			pos += 10 + (int(b[pos+8])<<8 | int(b[pos+9]))
		}
		if len(rdl) == 0 {
			return b, "none"
		}
		at := rdl[len(rdl)-1]
		if rapid.IntRange(0, 3).Draw(t, "rdlWhich") == 0 {
			at = rdl[rapid.IntRange(0, len(rdl)-1).Draw(t, "rdlIdx")]
		}
		v := rapid.SampledFrom([]int{0, 1, 2, 3, 5}).Draw(t, "rdlv")
		b[at], b[at+1] = 0, byte(v)
		if at == rdl[len(rdl)-1] && at+2+v <= len(b) && rapid.IntRange(0, 3).Draw(t, "rdlCut") != 0 {
			b = b[:at+2+v]
		}
		return b, "rdlength"
	case 0: // section count
		pos := 4 + 2*rapid.IntRange(0, 3).Draw(t, "cnt")
		v := rapid.SampledFrom([]uint16{0, 1, 2, 255, 65535}).Draw(t, "cntv")
		b[pos], b[pos+1] = byte(v>>8), byte(v)
		return b, "count"
	case 1: // a compression pointer somewhere: to itself, forward, out of range
		if len(b) > 14 {
			pos := rapid.IntRange(12, len(b)-2).Draw(t, "ptrpos")
			tgt := rapid.SampledFrom([]int{pos, pos + 2, len(b), len(b) - 1, 0x3fff, 12, 0}).Draw(t, "ptrtgt")
			b[pos], b[pos+1] = 0xc0|byte(tgt>>8), byte(tgt)
		}
		return b, "pointer"
	case 2: // reserved label type
		if len(b) > 13 {
			pos := rapid.IntRange(12, len(b)-1).Draw(t, "lblpos")
			b[pos] = rapid.SampledFrom([]byte{0x40, 0x80, 0x7f, 0xbf}).Draw(t, "lbl")
		}
		return b, "labeltype"
	case 3: // truncation
		return b[:rapid.IntRange(0, len(b)).Draw(t, "dnscut")], "truncated"
	case 4: // random bytes
		for k := rapid.IntRange(1, 4).Draw(t, "nflip"); k > 0; k-- {
			b[rapid.IntRange(0, len(b)-1).Draw(t, "fpos")] = rapid.Byte().Draw(t, "fb")
		}
		return b, "flip"
	case 5: // over-long label length
		if len(b) > 13 {
			b[rapid.IntRange(12, len(b)-1).Draw(t, "llpos")] = byte(rapid.IntRange(1, 63).Draw(t, "ll"))
		}
		return b, "labellen"
	}
	return b, "none"
}

// NBNSEncodeName is the RFC 1001 first-level encoding (16 bytes -> 32 characters + length + terminator).
func NBNSEncodeName(name string, suffix byte) []byte {
	n := []byte(name)
	for len(n) < 15 {
		n = append(n, ' ')
	}
	n = append(n[:15], suffix)
	out := []byte{32}
	for _, c := range n {
		out = append(out, 'A'+c>>4, 'A'+c&0x0f)
	}
	return append(out, 0)
}

// NBNSNodeStatus builds a node status response (RFC 1002 4.2.18).
type NBNSName struct {
	Name   string
	Suffix byte
	Group  bool
}

// NBNSNodeStatusTrimmed is NBNSNodeStatus with the last trim bytes of the RDATA missing (RDLENGTH says so too).
func NBNSNodeStatusTrimmed(id uint16, owner string, names []NBNSName, declared int, statsLen int, trim int) []byte {
	b := NBNSNodeStatus(id, owner, names, declared, statsLen)
	rdOff := 12 + 34 + 10 // header, encoded owner name, type/class/ttl/rdlength
	rdlen := len(b) - rdOff
	if trim > rdlen {
		trim = rdlen
	}
	b = b[:len(b)-trim]
	b[rdOff-2], b[rdOff-1] = byte((rdlen-trim)>>8), byte(rdlen-trim)
	return b
}

func NBNSNodeStatus(id uint16, owner string, names []NBNSName, declared int, statsLen int) []byte {
	b := []byte{byte(id >> 8), byte(id), 0x84, 0x00, 0, 0, 0, 1, 0, 0, 0, 0}
	b = append(b, NBNSEncodeName(owner, 0)...)
	b = append(b, 0, 0x21, 0, 1, 0, 0, 0, 0)
	rd := []byte{byte(declared)}
	for _, n := range names {
		nm := []byte(n.Name)
		for len(nm) < 15 {
			nm = append(nm, ' ')
		}
		nm = append(nm[:15], n.Suffix)
		flags := uint16(0x0400)
		if n.Group {
			flags |= 0x8000
		}
		rd = append(rd, nm...)
		rd = append(rd, byte(flags>>8), byte(flags))
	}
	rd = append(rd, make([]byte, statsLen)...)
	b = append(b, byte(len(rd)>>8), byte(len(rd)))
	return append(b, rd...)
}

// NBNSPayload draws an NBNS message: node status responses, name query responses (type 0x20), queries, other types.
func NBNSPayload(t *rapid.T) []byte {
	id := rapid.Uint16().Draw(t, "nbid")
	switch rapid.IntRange(0, 5).Draw(t, "nbKind") {
	case 0, 1:
		n := rapid.IntRange(0, 8).Draw(t, "nnames")
		var names []NBNSName
		for i := 0; i < n; i++ {
			names = append(names, NBNSName{Name: rapid.StringOfN(rapid.RuneFrom([]rune("ABCDEFGHIJ0123-")), 1, 15, 15).Draw(t, "nbname"), Suffix: rapid.SampledFrom([]byte{0x00, 0x20, 0x03}).Draw(t, "sfx"), Group: rapid.IntRange(0, 2).Draw(t, "grp") == 0})
		}
		declared := n
		if rapid.IntRange(0, 4).Draw(t, "lie") == 0 {
			declared = rapid.SampledFrom([]int{0, n + 1, n + 5, 255}).Draw(t, "declared")
		}
		stats := rapid.SampledFrom([]int{0, 46, 3}).Draw(t, "stats")
		if rapid.IntRange(0, 3).Draw(t, "trimmed") == 0 { // record cut short inside the name array (RDLENGTH consistent with what is there)
			return NBNSNodeStatusTrimmed(id, "*", names, declared, stats, rapid.SampledFrom([]int{1, 2, 3, 17, 18, 19, stats + 1}).Draw(t, "trim"))
		}
		return NBNSNodeStatus(id, "*", names, declared, stats)
	case 2: // positive name query response: type 0x20
		b := []byte{byte(id >> 8), byte(id), 0x85, 0x00, 0, 0, 0, 1, 0, 0, 0, 0}
		b = append(b, NBNSEncodeName("WORKSTATION", 0)...)
		b = append(b, 0, 0x20, 0, 1, 0, 0, 1, 0, 0, 6, 0, 0, 192, 168, 0, 5)
		return b
	case 3: // query
		b := []byte{byte(id >> 8), byte(id), 0x01, 0x10, 0, 1, 0, 0, 0, 0, 0, 0}
		b = append(b, NBNSEncodeName("FILESERVER", 0x20)...)
		return append(b, 0, 0x20, 0, 1)
	case 4: // response with another record type and several answers
		b := []byte{byte(id >> 8), byte(id), 0x85, 0x00, 0, 0, 0, 2, 0, 0, 0, 0}
		for i := 0; i < 2; i++ {
			b = append(b, NBNSEncodeName("X", 0)...)
			b = append(b, 0, rapid.SampledFrom([]byte{0x0a, 0x01, 0x20, 0x21}).Draw(t, "nbtype"), 0, 1, 0, 0, 0, 0, 0, 2, 1, 2)
		}
		return b
	}
	return Bytes(t, rapid.IntRange(0, 80).Draw(t, "nbrawlen"), "nbraw")
}

// SSDPPayload draws SSDP text: NOTIFY alive / byebye, M-SEARCH, HTTP responses, and damaged text.
func SSDPPayload(t *rapid.T) []byte {
	crlf := "\r\n"
	hdr := func(k, v string) string { return k + ": " + v + crlf }
	var s string
	switch rapid.IntRange(0, 6).Draw(t, "ssdpKind") {
	case 0:
		s = "NOTIFY * HTTP/1.1" + crlf + hdr("HOST", "239.255.255.250:1900") + hdr("CACHE-CONTROL", ssdpCacheControl(t)) +
			hdr("LOCATION", "http://192.168.0.5:1400/xml/device_description.xml") + hdr("NT", "upnp:rootdevice") + hdr("NTS", "ssdp:alive") + hdr("SERVER", "Linux UPnP/1.0 Sonos/63.2") + hdr("USN", "uuid:RINCON_1::upnp:rootdevice") + crlf
	case 1:
		s = "NOTIFY * HTTP/1.1" + crlf + hdr("HOST", "239.255.255.250:1900") + hdr("NT", "upnp:rootdevice") + hdr("NTS", rapid.SampledFrom([]string{"ssdp:byebye", "ssdp:update", ""}).Draw(t, "nts")) + hdr("USN", "uuid:x") + crlf
	case 2:
		s = "M-SEARCH * HTTP/1.1" + crlf + hdr("HOST", "239.255.255.250:1900") + hdr("MAN", rapid.SampledFrom([]string{`"ssdp:discover"`, `ssdp:discover`, ``}).Draw(t, "man")) + hdr("MX", "1") + hdr("ST", "ssdp:all") +
			hdr("USER-AGENT", rapid.SampledFrom([]string{"Chromium/74.0.3729.131 Linux", "Microsoft Edge/91.0 Windows", "My App/4 (iPhone; iOS 12.4) CocoaSSDP/0.1.0/1", "x (iPad) iOS", ""}).Draw(t, "ua")) + crlf
	case 3:
		s = "HTTP/1.1 " + rapid.SampledFrom([]string{"200 OK", "404 Not Found", "200", "abc"}).Draw(t, "status") + crlf + hdr("CACHE-CONTROL", "max-age=1800") + hdr("LOCATION", "http://192.168.0.9/desc.xml") + hdr("ST", "upnp:rootdevice") + hdr("Content-Length", rapid.SampledFrom([]string{"0", "10", "-1", "99999999999999999999"}).Draw(t, "cl")) + crlf
	case 4:
		s = rapid.SampledFrom([]string{"NOTIFY ", "M-SEARCH ", "NOTIFY * HTTP/1.1\r\n", "M-SEARCH * HTTP/9.9\r\n\r\n", "HTTP/1.1 200 OK\r\n", "\r\n\r\n", "GET / HTTP/1.1\r\nHost: a\r\n\r\n"}).Draw(t, "frag")
	case 5:
		return Bytes(t, rapid.IntRange(0, 120).Draw(t, "ssdprawlen"), "ssdpraw")
	default:
		s = "NOTIFY * HTTP/1.1" + crlf + strings.Repeat(hdr("X-LONG", strings.Repeat("a", 60)), rapid.IntRange(1, 15).Draw(t, "nlong")) + hdr("NTS", "ssdp:alive") + crlf
	}
	b := []byte(s)
	if rapid.IntRange(0, 5).Draw(t, "ssdpcut") == 0 && len(b) > 0 {
		b = b[:rapid.IntRange(0, len(b)).Draw(t, "ssdpcutpos")]
	}
	return b
}

// ssdpCacheControl draws a cache-control value from its little grammar: 1..4 '='-separated tokens.
func ssdpCacheControl(t *rapid.T) string {
	tok := rapid.SampledFrom([]string{"max-age", "max-age", "MAX-AGE", " max-age ", "1800", "60", "0", "-1", "abc", "x", "no-cache", "", " "})
	n := rapid.IntRange(1, 4).Draw(t, "ccTokens")
	parts := make([]string, n)
	for i := range parts {
		parts[i] = tok.Draw(t, "ccTok")
	}
	return strings.Join(parts, "=")
}

// DHCPPayload draws a DHCP message of any of the 8 types (or none), with structured or raw options.
func DHCPPayload(t *rapid.T, w World) []byte {
	m := ref.DHCPMsg{Op: rapid.SampledFrom([]byte{1, 1, 1, 2, 0}).Draw(t, "dop"), HType: 1, HLen: rapid.SampledFrom([]byte{6, 6, 6, 0, 16}).Draw(t, "dhlen"), CHAddr: w.MAC().Draw(t, "chaddr"),
		CIAddr: w.IP4().Draw(t, "ci"), YIAddr: w.IP4().Draw(t, "yi"), Flags: rapid.SampledFrom([]uint16{0, 0x8000}).Draw(t, "dflags")}
	copy(m.XID[:], Bytes(t, 4, "dxid"))
	b := m.Encode(false)
	b = b[:240]
	if rapid.IntRange(0, 2).Draw(t, "rawopts") == 0 {
		b = append(b, DHCPOptionsRaw(t, true)...)
	} else {
		mt := byte(rapid.IntRange(0, 9).Draw(t, "dmt"))
		b = append(b, 53, 1, mt)
		if rapid.Bool().Draw(t, "hasReq") {
			ip := w.IP4().Draw(t, "reqip")
			b = append(b, 50, 4, ip[0], ip[1], ip[2], ip[3])
		}
		if rapid.Bool().Draw(t, "hasSrv") {
			ip := w.IP4().Draw(t, "srvip")
			b = append(b, 54, byte(rapid.SampledFrom([]int{4, 4, 4, 3, 0}).Draw(t, "srvlen")))
			b = append(b, ip[:]...)
		}
		if rapid.Bool().Draw(t, "hasCid") {
			// (long identifiers - DUIDs, vendor strings - make the echoing replies and forged DECLINEs outgrow the BOOTP minimum)
			cid := Bytes(t, rapid.OneOf(rapid.IntRange(0, 9), rapid.IntRange(20, 70)).Draw(t, "cidlen"), "cid")
			b = append(b, 61, byte(len(cid)))
			b = append(b, cid...)
		}
		if rapid.Bool().Draw(t, "hasName") {
			nm := rapid.StringOfN(rapid.RuneFrom(labelRunes), 0, 20, -1).Draw(t, "hostname")
			b = append(b, 12, byte(len(nm)))
			b = append(b, nm...)
		}
		if rapid.Bool().Draw(t, "hasPRL") {
			prl := Bytes(t, rapid.IntRange(0, 12).Draw(t, "prllen"), "prl")
			b = append(b, 55, byte(len(prl)))
			b = append(b, prl...)
		}
		b = append(b, 255)
	}
	if rapid.Bool().Draw(t, "dpad") {
		for len(b) < 300 {
			b = append(b, 0)
		}
	}
	return b
}

// ICMP4Payload draws the part after the 8-byte ICMP header for a message type.
func ICMP4Message(t *rapid.T, w World) []byte {
	typ := rapid.SampledFrom([]byte{0, 8, 3, 3, 5, 11, 13, 200}).Draw(t, "i4type")
	var rest [4]byte
	copy(rest[:], Bytes(t, 4, "i4rest"))
	var pl []byte
	switch typ {
	case 3, 11, 5: // embeds the offending IPv4 header + 8 bytes
		proto := rapid.SampledFrom([]byte{17, 6, 1, 99}).Draw(t, "i4eproto")
		inner, _ := L4(t, proto, 40, nil)
		h := ref.IP4Hdr{IHL: rapid.SampledFrom([]int{20, 20, 24}).Draw(t, "i4eihl"), TotalLen: -1, TTL: 1, Proto: proto, Checksum: -1, Src: w.IP4().Draw(t, "i4esrc"), Dst: w.IP4().Draw(t, "i4edst")}
		pl = ref.IP4(h, inner)
		switch rapid.IntRange(0, 4).Draw(t, "i4ecut") {
		case 0:
			pl = pl[:rapid.IntRange(0, len(pl)).Draw(t, "i4ecutpos")]
		case 1:
			if len(pl) > 4 {
				pl[2], pl[3] = 0, byte(rapid.SampledFrom([]int{0, 10, 19, 20, 21}).Draw(t, "i4etl"))
			}
		case 2:
			if len(pl) > 0 {
				pl[0] = 0x40 | byte(rapid.IntRange(0, 15).Draw(t, "i4eihlv"))
			}
		}
	default:
		pl = Bytes(t, PayloadLen(t, 64), "i4pl")
	}
	return ref.ICMP(typ, rapid.SampledFrom([]byte{0, 1, 2, 3, 4, 255}).Draw(t, "i4code"), rest, pl, true)
}

// ICMP6Message draws an ICMPv6 message (4-byte header + body) for src/dst.
func ICMP6Message(t *rapid.T, src, dst [16]byte) []byte {
	typ := rapid.SampledFrom([]byte{133, 134, 134, 134, 135, 135, 136, 136, 137, 128, 129, 130, 131, 132, 143, 1, 2, 3, 200}).Draw(t, "i6type")
	var body []byte
	switch typ {
	case 133:
		body = append(make([]byte, 4), NDPOptionsRaw(t, true)...)
	case 134:
		body = append(Bytes(t, 12, "rahdr"), NDPOptionsRaw(t, true)...)
	case 135, 136:
		body = Bytes(t, 20, "nbody")
		if typ == 136 {
			body[0] = rapid.SampledFrom([]byte{0x20, 0x60, 0xe0, 0x00, 0x40}).Draw(t, "naflags")
		}
		if rapid.Bool().Draw(t, "gua") { // a global target makes the handler send its own solicitation
			copy(body[4:], []byte{0x20, 0x01, 0x0d, 0xb8})
		}
		switch rapid.IntRange(0, 3).Draw(t, "nopt") {
		case 0:
			body = append(body, byte(rapid.IntRange(1, 2).Draw(t, "ot")), 1)
			body = append(body, Bytes(t, 6, "lla")...)
		case 1:
			body = append(body, NDPOptionsRaw(t, true)...)
		}
	case 137:
		body = append(Bytes(t, 36, "redir"), NDPOptionsRaw(t, true)...)
	case 128, 129:
		body = Bytes(t, 4+PayloadLen(t, 40), "echo")
	default:
		body = Bytes(t, PayloadLen(t, 60), "i6body")
	}
	if rapid.IntRange(0, 5).Draw(t, "i6cut") == 0 && len(body) > 0 {
		body = body[:rapid.IntRange(0, len(body)).Draw(t, "i6cutpos")]
	}
	return ref.ICMP6(src, dst, typ, rapid.SampledFrom([]byte{0, 0, 0, 1, 255}).Draw(t, "i6code"), body)
}
