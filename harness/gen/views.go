package gen

import (
	"pgregory.net/rapid"
	"verifharness/ref"
)

// NDPOptionsRaw draws a byte-level NDP option list (RFC 4861 4.6): well-formed
// options of the known types, unknown types, and (at low rate) the malformed
// shapes a hostile sender can produce: length 0, length past the end, a
// truncated last option.
func NDPOptionsRaw(t *rapid.T, allowBad bool) []byte {
	var out []byte
	n := rapid.IntRange(0, 5).Draw(t, "nopt")
	for i := 0; i < n; i++ {
		typ := rapid.SampledFrom([]byte{1, 2, 3, 5, 24, 25, 31, 14, 200}).Draw(t, "otype")
		if rapid.IntRange(0, 2).Draw(t, "anyType") == 0 { // every option type a sender can put on the wire (RFC 8910, 8781, 4191, ... and unassigned)
			typ = rapid.Byte().Draw(t, "otypeAny")
		}
		units := 1
		switch typ {
		case 1, 2, 5:
			units = 1
		case 3:
			units = 4
		case 24:
			units = rapid.IntRange(1, 3).Draw(t, "riLen")
		case 25:
			units = 1 + 2*rapid.IntRange(1, 3).Draw(t, "nsrv")
		case 31:
			units = rapid.IntRange(2, 5).Draw(t, "dnsslLen")
		default:
			units = rapid.IntRange(1, 4).Draw(t, "ulen")
		}
		if allowBad && rapid.IntRange(0, 7).Draw(t, "oddLen") == 0 {
			units = rapid.IntRange(0, 6).Draw(t, "anyLen")
		}
		body := Bytes(t, max0(units*8-2), "obody")
		if typ == 24 && len(body) > 0 {
			body[0] = byte(rapid.SampledFrom([]int{0, 1, 48, 64, 65, 96, 128, 129, 255}).Draw(t, "riPlen"))
		}
		if typ == 31 && len(body) >= 8 { // a plausible domain list: "lan" 0 ...
			copy(body[6:], []byte{3, 'l', 'a', 'n', 0})
			for j := 11; j < len(body); j++ {
				body[j] = 0
			}
			// ... or a list whose labels are laid out against the end of the option: filling it exactly with and without
			// the final terminator, a terminator on the very last byte, a last label that claims more than is left
			if shape := rapid.IntRange(0, 5).Draw(t, "dnsslShape"); shape > 0 {
				names := body[6:]
				for j := range names {
					names[j] = 'a' + byte(j%26)
				}
				pos := 0
				for pos < len(names) {
					rem := len(names) - pos
					l := rapid.IntRange(1, 9).Draw(t, "dnsslLabel")
					last := l+1 >= rem
					switch {
					case last && shape == 1: // the label runs to the final byte, no terminator
						l = rem - 1
					case last && shape == 2: // label, then the terminator on the final byte
						l = rem - 2
					case last && shape == 3: // claims one byte more than is left
						l = rem
					case last && shape == 4: // name ends early, padding follows
						names[pos] = 0
						for j := pos + 1; j < len(names); j++ {
							names[j] = 0
						}
						pos = len(names)
						continue
					case last:
						l = rem - 1
					}
					if l < 0 {
						l = 0
					}
					names[pos] = byte(l)
					pos += 1 + l
					if last {
						if shape == 2 && pos < len(names) {
							names[pos] = 0
						}
						break
					}
					if rapid.IntRange(0, 2).Draw(t, "dnsslEndName") == 0 && pos < len(names) {
						names[pos] = 0
						pos++
					}
				}
			}
		}
		opt := append([]byte{typ, byte(units)}, body...)
		if allowBad && units == 0 {
			opt = []byte{typ, 0}
		}
		if allowBad && rapid.IntRange(0, 9).Draw(t, "hugeLen") == 0 {
			// a length octet of 32 or more (256+ bytes) in front of a short body: the byte count does not fit an octet
			lb := rapid.SampledFrom([]int{32, 33, 34, 63, 64, 65, 128, 129, 255}).Draw(t, "hugeLenV")
			present := rapid.SampledFrom([]int{(lb * 8) % 256, (lb*8)%256 + 8, 8, 16, 24}).Draw(t, "hugePresent")
			if present < 2 {
				present = 8
			}
			opt = append([]byte{typ, byte(lb)}, Bytes(t, present-2, "hugeBody")...)
		}
		out = append(out, opt...)
	}
	if allowBad {
		switch rapid.IntRange(0, 9).Draw(t, "tail") {
		case 0:
			out = append(out, rapid.SampledFrom([]byte{1, 3, 25, 200}).Draw(t, "ttype")) // lone type byte
		case 1:
			out = append(out, 1, 9) // length past the end
		case 2:
			if len(out) > 3 {
				out = out[:len(out)-rapid.IntRange(1, 3).Draw(t, "chop")]
			}
		}
	}
	return out
}

func max0(n int) int {
	if n < 0 {
		return 0
	}
	return n
}

// DHCPOptionsRaw draws a DHCP option area (RFC 2132 encoding).
func DHCPOptionsRaw(t *rapid.T, allowBad bool) []byte {
	var out []byte
	n := rapid.IntRange(0, 8).Draw(t, "ndhcpopt")
	for i := 0; i < n; i++ {
		code := rapid.SampledFrom([]byte{53, 50, 54, 61, 12, 55, 51, 1, 3, 6, 0, 60, 121, 82, 254}).Draw(t, "code")
		if code == 0 {
			out = append(out, 0)
			continue
		}
		l := rapid.IntRange(0, 8).Draw(t, "olen")
		switch code {
		case 53:
			l = 1
		case 50, 54, 1, 3, 51:
			l = 4
		}
		if allowBad && rapid.IntRange(0, 9).Draw(t, "badl") == 0 {
			l = rapid.IntRange(0, 255).Draw(t, "anyl")
		}
		body := Bytes(t, l, "ob")
		if code == 53 && l == 1 {
			body[0] = byte(rapid.IntRange(0, 9).Draw(t, "mt"))
		}
		out = append(out, code, byte(l))
		if allowBad && rapid.IntRange(0, 14).Draw(t, "short") == 0 && len(body) > 0 {
			body = body[:len(body)-1]
		}
		out = append(out, body...)
	}
	if !allowBad || rapid.IntRange(0, 4).Draw(t, "end") != 0 {
		out = append(out, 255)
	}
	return out
}

// LLDPRaw draws an LLDPDU (802.1AB TLVs: 7-bit type, 9-bit length).
func LLDPRaw(t *rapid.T, allowBad bool) []byte {
	var out []byte
	n := rapid.IntRange(0, 6).Draw(t, "ntlv")
	for i := 0; i < n; i++ {
		typ := byte(i + 1)
		if i >= 3 {
			typ = byte(rapid.IntRange(1, 127).Draw(t, "ttype"))
		}
		l := rapid.OneOf(rapid.IntRange(0, 12), rapid.IntRange(0, 511)).Draw(t, "tlen")
		out = append(out, typ<<1|byte(l>>8), byte(l))
		body := Bytes(t, l, "tbody")
		if allowBad && rapid.IntRange(0, 9).Draw(t, "tshort") == 0 && l > 0 {
			body = body[:rapid.IntRange(0, l-1).Draw(t, "tcut")]
		}
		out = append(out, body...)
	}
	if !allowBad || rapid.IntRange(0, 3).Draw(t, "tend") != 0 {
		out = append(out, 0, 0)
	}
	return out
}

// ViewBytes draws bytes for the named protocol view: a plausible encoding
// (built with ref), then boundary truncation / byte overwrites at low rate.
func (w World) ViewBytes(t *rapid.T, name string) []byte {
	var b []byte
	sliceOf := func(sel func(d ref.Decoded) int) []byte {
		for i := 0; i < 4; i++ {
			f := w.Frame(nil).Draw(t, "vf")
			if off := sel(ref.Decode(f.Bytes)); off > 0 && off <= len(f.Bytes) {
				return f.Bytes[off:]
			}
		}
		return Bytes(t, rapid.IntRange(0, 80).Draw(t, "fallbackLen"), "fallback")
	}
	min := 0
	switch name {
	case "Ether":
		b, min = w.Frame(nil).Draw(t, "ef").Bytes, 14
	case "IP4":
		b, min = sliceOf(func(d ref.Decoded) int { return d.OffIP4 }), 20
	case "IP6":
		b, min = sliceOf(func(d ref.Decoded) int { return d.OffIP6 }), 40
	case "UDP":
		b, min = sliceOf(func(d ref.Decoded) int { return d.OffUDP }), 8
	case "TCP":
		b, min = sliceOf(func(d ref.Decoded) int { return d.OffTCP }), 20
	case "ARP":
		p := ref.ARPPkt{HType: 1, PType: 0x0800, HLen: 6, PLen: 4, Op: uint16(rapid.IntRange(0, 3).Draw(t, "op")), SHA: w.MAC().Draw(t, "sha"), SPA: w.IP4().Draw(t, "spa"), THA: w.MAC().Draw(t, "tha"), TPA: w.IP4().Draw(t, "tpa")}
		b, min = ref.ARP(p), 28
	case "ICMP", "ICMPEcho":
		var rest [4]byte
		copy(rest[:], Bytes(t, 4, "rest"))
		b, min = ref.ICMP(rapid.SampledFrom([]byte{0, 8, 3, 5, 128, 129}).Draw(t, "it"), 0, rest, Bytes(t, PayloadLen(t, 64), "ip"), true), 8
	case "ICMP4Redirect":
		n := rapid.IntRange(0, 5).Draw(t, "naddr")
		sz := rapid.SampledFrom([]int{4, 10, 4, 10, 0, 1, 2, 255}).Draw(t, "asz")
		b = append([]byte{137, 0, 0, 0, byte(n), byte(sz), 0, 30}, Bytes(t, rapid.SampledFrom([]int{n * sz * 4, n * sz * 4, n*sz*4 + 8, max0(n*sz*4 - 1), 16}).Draw(t, "rl"), "rbody")...)
		min = 8
	case "ICMP6RouterSolicitation":
		b = []byte{133, 0, 0, 0, 0, 0, 0, 0}
		switch rapid.IntRange(0, 3).Draw(t, "rsKind") {
		case 0:
			b = append(b, 1, 1)
			b = append(b, Bytes(t, 6, "slla")...)
		case 1:
			b = append(b, 1, 3)
			b = append(b, Bytes(t, rapid.SampledFrom([]int{14, 15, 16, 22}).Draw(t, "l"), "slla3")...)
		case 2:
			b = append(b, Bytes(t, 16, "rsv")...)
			b = append(b, NDPOptionsRaw(t, true)...)
		}
		min = 8
	case "ICMP6RouterAdvertisement":
		b = append([]byte{134, 0, 0, 0}, Bytes(t, 12, "rahdr")...)
		b = append(b, NDPOptionsRaw(t, true)...)
		min = 16
	case "ICMP6NeighborAdvertisement", "ICMP6NeighborSolicitation":
		typ := byte(136)
		if name == "ICMP6NeighborSolicitation" {
			typ = 135
		}
		b = append([]byte{typ, 0, 0, 0}, Bytes(t, 20, "nbody")...)
		switch rapid.IntRange(0, 3).Draw(t, "nopt") {
		case 0:
			b = append(b, byte(rapid.IntRange(1, 2).Draw(t, "ot")), 1)
			b = append(b, Bytes(t, 6, "lla")...)
		case 1:
			b = append(b, NDPOptionsRaw(t, true)...)
		case 2:
			b = append(b, byte(rapid.IntRange(1, 2).Draw(t, "ot")), 1)
			b = append(b, Bytes(t, rapid.IntRange(0, 5).Draw(t, "shortlla"), "lla")...)
		}
		min = 24
	case "ICMP6Redirect":
		b = append([]byte{137, 0, 0, 0}, Bytes(t, 36, "rbody")...)
		switch rapid.IntRange(0, 2).Draw(t, "ropt") {
		case 0:
			b = append(b, 2, 1)
			b = append(b, Bytes(t, rapid.IntRange(0, 6).Draw(t, "tl"), "tlla")...)
		case 1:
			b = append(b, NDPOptionsRaw(t, true)...)
		}
		min = 40
	case "DHCP4":
		b = make([]byte, 236)
		copy(b, Bytes(t, 44, "dh"))
		b[0] = rapid.SampledFrom([]byte{1, 2, 1, 2, 0, 3}).Draw(t, "op")
		b[1], b[2] = 1, rapid.SampledFrom([]byte{6, 6, 6, 0, 16}).Draw(t, "hlen")
		if rapid.Bool().Draw(t, "sname") {
			copy(b[44:], Bytes(t, rapid.IntRange(0, 64).Draw(t, "sl"), "sn"))
		}
		if rapid.Bool().Draw(t, "file") {
			copy(b[108:], Bytes(t, rapid.IntRange(0, 128).Draw(t, "fl"), "fn"))
		}
		b = append(b, 99, 130, 83, 99)
		b = append(b, DHCPOptionsRaw(t, true)...)
		if rapid.Bool().Draw(t, "pad300") {
			for len(b) < 300 {
				b = append(b, 0)
			}
		}
		min = 240
	case "DNS":
		b, min = Bytes(t, rapid.OneOf(rapid.IntRange(0, 40), rapid.IntRange(0, 512)).Draw(t, "dl"), "dns"), 12
	case "LLC":
		b, min = Bytes(t, rapid.IntRange(0, 20).Draw(t, "ll"), "llc"), 3
		if len(b) >= 3 {
			b[2] = rapid.SampledFrom([]byte{0x03, 0x00, 0x01, 0x13, 0xff}).Draw(t, "ctl")
		}
	case "SNAP":
		b, min = append([]byte{0xaa, 0xaa, 0x03}, Bytes(t, rapid.IntRange(0, 20).Draw(t, "sl"), "snap")...), 9
	case "RRCP":
		b, min = Bytes(t, rapid.IntRange(0, 70).Draw(t, "rl"), "rrcp"), 16
		if len(b) > 0 {
			b[0] = rapid.SampledFrom([]byte{0x01, 0x23, 0x90, 0x00}).Draw(t, "rproto")
		}
	case "LLDP":
		b, min = LLDPRaw(t, true), 6
	case "IEEE1905":
		b, min = Bytes(t, rapid.IntRange(0, 70).Draw(t, "il"), "1905"), 8
	case "EthernetPause":
		b, min = Bytes(t, rapid.IntRange(40, 70).Draw(t, "pl"), "pause"), 46
		if len(b) >= 2 {
			b[0], b[1] = 0, rapid.SampledFrom([]byte{1, 1, 1, 0, 2}).Draw(t, "opc")
		}
	case "HopByHopExtensionHeader":
		units := rapid.OneOf(rapid.IntRange(0, 3), rapid.IntRange(0, 3), rapid.SampledFrom([]int{30, 31, 32, 33, 63, 64, 127, 128, 254, 255})).Draw(t, "hl")
		b = []byte{rapid.SampledFrom([]byte{58, 17, 6, 0}).Draw(t, "hn"), byte(units)}
		if units > 3 && rapid.IntRange(0, 3).Draw(t, "hfull") != 0 { // a long header: mostly PadN options, the last few drawn below
			for len(b) < units*8+8-40 {
				n := min0(253, units*8+8-40-len(b)-2)
				b = append(b, 1, byte(n))
				b = append(b, make([]byte, n)...)
			}
		}
		for len(b) < units*8+8+rapid.IntRange(0, 4).Draw(t, "slack") && len(b) < 2200 {
			if units > 3 && len(b) > 80 && len(b) < units*8+8-40 { // a long length claimed by a short header: stop early
				break
			}
			switch rapid.IntRange(0, 5).Draw(t, "ho") {
			case 0:
				b = append(b, 0)
			case 1:
				n := rapid.IntRange(0, 5).Draw(t, "pn")
				b = append(b, 1, byte(n))
				b = append(b, make([]byte, n)...)
			case 2:
				b = append(b, 5, 2, 0, byte(rapid.IntRange(0, 3).Draw(t, "ra")))
			case 3:
				b = append(b, 0xc2, 4, 0, 1, 0, 0)
			case 4:
				b = append(b, rapid.Byte().Draw(t, "ot"), rapid.SampledFrom([]byte{0, 1, 4, 200, 255}).Draw(t, "ol"))
			default:
				b = append(b, rapid.Byte().Draw(t, "ob"))
			}
		}
		if rapid.IntRange(0, 3).Draw(t, "hcut") == 0 && len(b) > 2 {
			b = b[:rapid.IntRange(2, len(b)).Draw(t, "hc")]
		}
		min = 2
	case "Unknown880a":
		b, min = Bytes(t, rapid.IntRange(0, 20).Draw(t, "ul"), "u"), 1
	default:
		b = Bytes(t, rapid.IntRange(0, 100).Draw(t, "xl"), "x")
	}
	b = append([]byte(nil), b...)
	// boundary mutations
	switch rapid.IntRange(0, 5).Draw(t, "vmut") {
	case 0:
		n := rapid.SampledFrom([]int{min - 1, min, min + 1, min + 2, min + 7, min + 8}).Draw(t, "vcut")
		if n >= 0 && n < len(b) {
			b = b[:n]
		}
	case 1:
		if len(b) > 0 {
			b = b[:rapid.IntRange(0, len(b)).Draw(t, "vcut2")]
		}
	case 2:
		for k := rapid.IntRange(1, 3).Draw(t, "vflips"); k > 0 && len(b) > 0; k-- {
			lim := len(b)
			if lim > 48 && rapid.Bool().Draw(t, "vhdr") {
				lim = 48
			}
			pos := rapid.IntRange(0, lim-1).Draw(t, "vpos")
			b[pos] = rapid.SampledFrom([]byte{0, 1, b[pos] - 1, b[pos] + 1, 0x0f, 0x4f, 0xf0, 0xff, rapid.Byte().Draw(t, "vb")}).Draw(t, "vv")
		}
	}
	return b
}

func min0(a, b int) int {
	if b < 0 {
		return 0
	}
	if a < b {
		return a
	}
	return b
}
