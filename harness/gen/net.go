// Package gen holds the rapid generators shared by the property checks.
package gen

import (
	"net/netip"

	"pgregory.net/rapid"
	"verifharness/ref"
)

// World is the small universe of addresses the generators draw from, so that
// the library's host-tracking branches (own MAC, router MAC, on/off LAN) are hit.
type World struct {
	HostMAC   ref.MAC
	RouterMAC ref.MAC
	Clients   []ref.MAC
	LAN       netip.Prefix
	HostIP    netip.Addr
	RouterIP  netip.Addr
	HostLLA   netip.Addr
	RouterLLA netip.Addr
}

// DefaultWorld mirrors the addresses used in the repository's own tests.
func DefaultWorld() World {
	return World{
		HostMAC:   ref.MAC{0x00, 0xff, 0x03, 0x04, 0x05, 0x01},
		RouterMAC: ref.MAC{0x00, 0xff, 0x03, 0x04, 0x05, 0x11},
		Clients: []ref.MAC{{0x00, 0x02, 0x03, 0x04, 0x05, 0x01}, {0x00, 0x02, 0x03, 0x04, 0x05, 0x02},
			{0x00, 0x02, 0x03, 0x04, 0x15, 0x01}, {0x00, 0x02, 0x03, 0x14, 0x05, 0x01}}, // each differs from the first in one byte only
		LAN:       netip.MustParsePrefix("192.168.0.0/24"),
		HostIP:    netip.MustParseAddr("192.168.0.129"),
		RouterIP:  netip.MustParseAddr("192.168.0.11"),
		HostLLA:   netip.MustParseAddr("fe80::2ff:3ff:fe04:501"),
		RouterLLA: netip.MustParseAddr("fe80::2ff:3ff:fe04:511"),
	}
}

func (w World) MAC() *rapid.Generator[ref.MAC] {
	return rapid.Custom(func(t *rapid.T) ref.MAC {
		switch rapid.IntRange(0, 9).Draw(t, "macClass") {
		case 0, 1, 2, 3:
			return rapid.SampledFrom(w.Clients).Draw(t, "client")
		case 4:
			return w.HostMAC
		case 5:
			return w.RouterMAC
		case 6:
			return ref.MAC{0xff, 0xff, 0xff, 0xff, 0xff, 0xff}
		case 7:
			return ref.MAC{0x33, 0x33, 0, 0, 0, byte(rapid.IntRange(1, 2).Draw(t, "mc"))}
		case 8:
			return ref.MAC{0x01, 0x00, 0x5e, 0, 0, 0xfb}
		}
		var m ref.MAC
		for i := range m {
			m[i] = rapid.Byte().Draw(t, "m")
		}
		return m
	})
}

// UnicastMAC draws a unicast source MAC (client-biased).
func (w World) UnicastMAC() *rapid.Generator[ref.MAC] {
	return rapid.Custom(func(t *rapid.T) ref.MAC {
		m := w.MAC().Draw(t, "mac")
		m[0] &^= 1
		return m
	})
}

func (w World) IP4() *rapid.Generator[[4]byte] {
	return rapid.Custom(func(t *rapid.T) [4]byte {
		base := w.LAN.Addr().As4()
		switch rapid.IntRange(0, 11).Draw(t, "ip4Class") {
		case 0, 1, 2, 3:
			base[3] = byte(rapid.IntRange(1, 20).Draw(t, "h"))
			return base
		case 4:
			return w.HostIP.As4()
		case 5:
			return w.RouterIP.As4()
		case 6:
			return [4]byte{}
		case 7:
			return [4]byte{255, 255, 255, 255}
		case 8:
			base[3] = 255
			return base
		case 9:
			return [4]byte{224, 0, 0, byte(rapid.SampledFrom([]int{1, 2, 251, 252}).Draw(t, "mc"))}
		case 10:
			return [4]byte{169, 254, 1, byte(rapid.IntRange(1, 5).Draw(t, "ll"))}
		}
		var a [4]byte
		for i := range a {
			a[i] = rapid.Byte().Draw(t, "o")
		}
		return a
	})
}

func (w World) IP6() *rapid.Generator[[16]byte] {
	return rapid.Custom(func(t *rapid.T) [16]byte {
		var a [16]byte
		switch rapid.IntRange(0, 10).Draw(t, "ip6Class") {
		case 9: // IPv4-mapped: sixteen bytes in an IPv6 header all the same
			a = [16]byte{10: 0xff, 11: 0xff, 12: 192, 13: 168, 14: 0, 15: byte(rapid.IntRange(1, 9).Draw(t, "mapped"))}
		case 10: // link-local outside fe80::/64, site-local, unique local
			a[0], a[1] = rapid.SampledFrom([][2]byte{{0xfe, 0x80}, {0xfe, 0xbf}, {0xfe, 0xc0}, {0xfd, 0x00}}).Draw(t, "ll")[0], 0
			a[1] = rapid.SampledFrom([]byte{0x80, 0xbf, 0xc0, 0x00}).Draw(t, "ll1")
			a[7], a[15] = byte(rapid.IntRange(0, 1).Draw(t, "subnet")), byte(rapid.IntRange(1, 9).Draw(t, "lla2"))
		case 0, 1:
			a[0], a[1] = 0xfe, 0x80
			a[15] = byte(rapid.IntRange(1, 9).Draw(t, "lla"))
		case 2, 3:
			a[0], a[1], a[2], a[3] = 0x20, 0x01, 0x0d, 0xb8
			a[15] = byte(rapid.IntRange(1, 9).Draw(t, "gua"))
		case 4:
			a[0], a[1], a[15] = 0xff, 0x02, byte(rapid.SampledFrom([]int{1, 2, 0xfb, 0x16}).Draw(t, "mc"))
		case 5: // unspecified
		case 6:
			a = w.HostLLA.As16()
		case 7:
			a = w.RouterLLA.As16()
		default:
			for i := range a {
				a[i] = rapid.Byte().Draw(t, "o")
			}
		}
		return a
	})
}

// InterestingPorts are the ports of the documented UDP table plus neighbours.
var InterestingPorts = []uint16{443, 67, 68, 546, 547, 53, 5353, 5355, 123, 1900, 3702, 137, 138, 32412, 32414, 10001, 0, 1, 80, 442, 444, 66, 69, 65535, 5354, 139, 32413}

func Port() *rapid.Generator[uint16] {
	return rapid.OneOf(rapid.SampledFrom(InterestingPorts), rapid.SampledFrom(InterestingPorts), rapid.Uint16())
}

// Bytes draws n pseudo-random bytes from one drawn seed (cheap for rapid to shrink).
func Bytes(t *rapid.T, n int, label string) []byte {
	b := make([]byte, n)
	if n == 0 {
		return b
	}
	seed := rapid.Uint64().Draw(t, label)
	x := seed
	for i := range b {
		x += 0x9e3779b97f4a7c15
		z := x
		z = (z ^ (z >> 30)) * 0xbf58476d1ce4e5b9
		z = (z ^ (z >> 27)) * 0x94d049bb133111eb
		b[i] = byte(z ^ (z >> 31))
	}
	if seed == 0 { // shrunk form: zeros
		for i := range b {
			b[i] = 0
		}
	}
	return b
}

// PayloadLen draws an application payload length biased to small and boundary values.
func PayloadLen(t *rapid.T, max int) int {
	if max < 0 {
		max = 0
	}
	n := rapid.OneOf(rapid.IntRange(0, 64), rapid.IntRange(0, 64), rapid.IntRange(0, max),
		rapid.SampledFrom([]int{0, 1, 7, 8, 11, 12, 19, 20, 27, 28, 39, 40, 239, 240, 241, 299, 300, max - 1, max})).Draw(t, "plen")
	if n < 0 {
		n = 0
	}
	if n > max {
		n = max
	}
	return n
}

// EtherTypes the library gives a meaning to, and some it does not.
var EtherTypes = []uint16{0x0800, 0x86dd, 0x0806, 0x8100, 0x88a8, 0x8808, 0x8899, 0x88cc, 0x890d, 0x893a, 0x6970, 0x880a,
	0x0000, 0x0003, 0x0026, 0x05dc, 0x05ff, 0x0600, 0x0601, 0x8035, 0x888e, 0xffff}

// Protos the library gives a meaning to, and some it does not.
var Protos = []byte{17, 6, 1, 58, 2, 0, 59, 47, 50, 255}

// FrameCase is a generated frame and the label of the class it was built as.
type FrameCase struct {
	Bytes []byte
	Class string
}

// AppPayload produces the bytes above UDP/TCP/ICMP for a class; nil = random bytes.
type AppPayload func(t *rapid.T, class string, max int) []byte

// L4 builds the transport part for protocol proto (v6 selects the ICMP flavour).
func L4(t *rapid.T, proto byte, max int, app AppPayload) ([]byte, string) {
	rnd := func(class string, m int) []byte {
		if app != nil {
			if b := app(t, class, m); b != nil {
				return b
			}
		}
		return Bytes(t, PayloadLen(t, m), "app")
	}
	switch proto {
	case 17:
		sp, dp := Port().Draw(t, "sport"), Port().Draw(t, "dport")
		pl := rnd("udp", max-8)
		return ref.UDP(sp, dp, -1, rapid.Uint16().Draw(t, "udpsum"), pl), "udp"
	case 6:
		h := ref.TCPHdr{Sport: Port().Draw(t, "sport"), Dport: Port().Draw(t, "dport"), Seq: rapid.Uint32().Draw(t, "seq"), Ack: rapid.Uint32().Draw(t, "ack"),
			DataOff: rapid.IntRange(5, 15).Draw(t, "doff"), NS: rapid.Bool().Draw(t, "ns"), Flags: rapid.Byte().Draw(t, "flags"),
			Window: rapid.Uint16().Draw(t, "win"), Checksum: rapid.Uint16().Draw(t, "sum"), Urgent: rapid.Uint16().Draw(t, "urg")}
		h.Options = Bytes(t, h.DataOff*4-20, "tcpopts")
		return ref.TCP(h, rnd("tcp", max-h.DataOff*4)), "tcp"
	case 1:
		typ := rapid.SampledFrom([]byte{0, 8, 3, 5, 11, 13, 255}).Draw(t, "icmptype")
		var rest [4]byte
		copy(rest[:], Bytes(t, 4, "rest"))
		return ref.ICMP(typ, rapid.Byte().Draw(t, "code"), rest, rnd("icmp4", max-8), rapid.Bool().Draw(t, "okSum")), "icmp4"
	case 58:
		typ := rapid.SampledFrom([]byte{128, 129, 133, 134, 135, 136, 137, 1, 130, 131, 143, 200}).Draw(t, "icmp6type")
		b := append([]byte{typ, rapid.Byte().Draw(t, "code"), 0, 0}, rnd("icmp6", max-4)...)
		return b, "icmp6"
	case 2:
		return rnd("igmp", max), "igmp"
	}
	return rnd("other", max), "proto-other"
}

// Frame draws a well-formed frame of a drawn class (every branch of Parse).
func (w World) Frame(app AppPayload) *rapid.Generator[FrameCase] {
	return rapid.Custom(func(t *rapid.T) FrameCase {
		dst := w.MAC().Draw(t, "dst")
		src := w.MAC().Draw(t, "src")
		if rapid.IntRange(0, 9).Draw(t, "srcUnicast") != 0 {
			src[0] &^= 1
		}
		kind := rapid.SampledFrom([]string{"ip4", "ip4", "ip4", "ip6", "ip6", "arp", "vlan", "qinq", "8023", "vendor", "unknown"}).Draw(t, "l2class")
		switch kind {
		case "ip4":
			proto := rapid.SampledFrom(Protos).Draw(t, "proto")
			ihl := rapid.SampledFrom([]int{20, 20, 20, 24, 40, 60}).Draw(t, "ihl")
			l4, cls := L4(t, proto, 1500-ihl, app)
			h := ref.IP4Hdr{IHL: ihl, TOS: rapid.Byte().Draw(t, "tos"), TotalLen: -1, ID: rapid.Uint16().Draw(t, "id"), Flags: byte(rapid.IntRange(0, 7).Draw(t, "fl")),
				FragOff: uint16(rapid.SampledFrom([]int{0, 0, 0, 1, 0xff, 0x100, 0x1fff}).Draw(t, "frag")), TTL: rapid.Byte().Draw(t, "ttl"), Proto: proto, Checksum: -1,
				Src: w.IP4().Draw(t, "src4"), Dst: w.IP4().Draw(t, "dst4"), Options: Bytes(t, ihl-20, "ip4opts")}
			b := ref.Eth(dst, src, 0x0800, ref.IP4(h, l4))
			if n := rapid.SampledFrom([]int{0, 0, 0, 1, 4, 18, 46}).Draw(t, "pad"); n > 0 {
				b = append(b, make([]byte, n)...) // Ethernet padding after the IP datagram
				cls += "+pad"
			}
			return FrameCase{b, "ip4/" + cls}
		case "ip6":
			next := rapid.SampledFrom(Protos).Draw(t, "next")
			l4, cls := L4(t, next, 1460, app)
			h := ref.IP6Hdr{Class: rapid.Byte().Draw(t, "class"), Flow: rapid.Uint32().Draw(t, "flow") & 0xfffff, PayloadLen: -1, Next: next,
				HopLimit: rapid.Byte().Draw(t, "hop"), Src: w.IP6().Draw(t, "src6"), Dst: w.IP6().Draw(t, "dst6")}
			if next == 0 { // hop-by-hop header in front of an ICMPv6 message
				hbh := []byte{58, 0, 5, 2, 0, 0, 1, 0}
				l4 = append(hbh, l4...)
				cls = "hopbyhop"
			}
			return FrameCase{ref.Eth(dst, src, 0x86dd, ref.IP6(h, l4)), "ip6/" + cls}
		case "arp":
			p := ref.ARPPkt{HType: 1, PType: 0x0800, HLen: 6, PLen: 4, Op: uint16(rapid.SampledFrom([]int{1, 2, 0, 3}).Draw(t, "op")),
				SHA: w.MAC().Draw(t, "sha"), SPA: w.IP4().Draw(t, "spa"), THA: w.MAC().Draw(t, "tha"), TPA: w.IP4().Draw(t, "tpa")}
			if rapid.IntRange(0, 4).Draw(t, "shaIsSrc") != 0 {
				p.SHA = src
			}
			b := ref.Eth(dst, src, 0x0806, ref.ARP(p))
			if rapid.Bool().Draw(t, "pad") {
				b = append(b, make([]byte, 18)...)
			}
			return FrameCase{b, "arp"}
		case "vlan", "qinq":
			inner := rapid.SampledFrom([]uint16{0x0800, 0x86dd, 0x0806, 0x88cc}).Draw(t, "inner")
			pl := Bytes(t, PayloadLen(t, 1500), "vlanpl")
			return FrameCase{ref.EthTagged(dst, src, kind == "qinq", rapid.Uint16().Draw(t, "tci1"), rapid.Uint16().Draw(t, "tci2"), inner, pl), kind}
		case "8023":
			n := PayloadLen(t, 1500)
			pl := Bytes(t, n, "llc")
			if n >= 3 {
				switch rapid.IntRange(0, 4).Draw(t, "llcKind") {
				case 0:
					pl[0], pl[1], pl[2] = 0x42, 0x42, 0x03
				case 1:
					pl[0], pl[1], pl[2] = 0xaa, 0xaa, 0x03
				case 2:
					pl[0], pl[1] = 0xe0, 0xe0
				}
			}
			return FrameCase{ref.Eth(dst, src, uint16(n), pl), "8023"}
		case "vendor":
			et := rapid.SampledFrom([]uint16{0x8808, 0x8899, 0x88cc, 0x890d, 0x893a, 0x6970, 0x880a}).Draw(t, "vendorType")
			if rapid.IntRange(0, 2).Draw(t, "groupDst") == 0 { // the reserved group addresses these protocols are really sent to, in frames below the 60 byte minimum too
				dst = map[uint16]ref.MAC{0x8808: {0x01, 0x80, 0xc2, 0, 0, 0x01}, 0x88cc: {0x01, 0x80, 0xc2, 0, 0, 0x0e}, 0x893a: {0x01, 0x80, 0xc2, 0, 0, 0x13}, 0x8899: {0xff, 0xff, 0xff, 0xff, 0xff, 0xff}}[et]
				if dst == (ref.MAC{}) {
					dst = ref.MAC{0x01, 0x80, 0xc2, 0, 0, 0x00}
				}
				return FrameCase{ref.Eth(dst, src, et, Bytes(t, rapid.SampledFrom([]int{0, 2, 4, 10, 45, 46, 47}).Draw(t, "shortpl"), "vendorshort")), "vendor-group"}
			}
			return FrameCase{ref.Eth(dst, src, et, Bytes(t, PayloadLen(t, 1500), "vendorpl")), "vendor"}
		}
		et := rapid.OneOf(rapid.SampledFrom(EtherTypes), rapid.Uint16()).Draw(t, "etype")
		return FrameCase{ref.Eth(dst, src, et, Bytes(t, PayloadLen(t, 1500), "pl")), "unknown"}
	})
}

// Boundaries returns the layer boundaries of a frame (for truncation bias).
func Boundaries(b []byte) []int {
	d := ref.Decode(b)
	out := []int{0, 1, 6, 12, 13, 14, 15, 17, 18, 19, 21, 22, 23}
	for _, o := range []int{d.OffIP4, d.OffIP6, d.OffUDP, d.OffTCP, d.OffPayload, d.IPEnd} {
		if o > 0 {
			out = append(out, o-1, o, o+1, o+7, o+8, o+9, o+19, o+20, o+21, o+27, o+28, o+39, o+40, o+41)
		}
	}
	return out
}

// Mutate applies 0..3 structural mutations: truncation (boundary biased),
// length-field overwrite, byte flips, padding.
func Mutate(t *rapid.T, b []byte) ([]byte, string) {
	label := ""
	b = append([]byte(nil), b...)
	for k := rapid.IntRange(0, 3).Draw(t, "nmut"); k > 0; k-- {
		switch rapid.IntRange(0, 3).Draw(t, "mut") {
		case 0: // truncate
			var n int
			if rapid.Bool().Draw(t, "atBoundary") {
				n = rapid.SampledFrom(Boundaries(b)).Draw(t, "cut")
			} else {
				n = rapid.IntRange(0, len(b)).Draw(t, "cut")
			}
			if n < 0 {
				n = 0
			}
			if n < len(b) {
				b = b[:n]
			}
			label += "+trunc"
		case 1: // overwrite a length-bearing field
			d := ref.Decode(b)
			type fld struct{ off, size int }
			var fs []fld
			fs = append(fs, fld{12, 2})
			if d.OffIP4 > 0 {
				fs = append(fs, fld{d.OffIP4, 1}, fld{d.OffIP4 + 2, 2}, fld{d.OffIP4 + 9, 1})
			} else if len(b) > 18 && b[12] == 0x08 && b[13] == 0x00 {
				fs = append(fs, fld{14, 1}, fld{16, 2})
			}
			if d.OffIP6 > 0 {
				fs = append(fs, fld{d.OffIP6 + 4, 2}, fld{d.OffIP6 + 6, 1})
			}
			if d.OffUDP > 0 {
				fs = append(fs, fld{d.OffUDP + 4, 2})
			}
			if d.OffTCP > 0 {
				fs = append(fs, fld{d.OffTCP + 12, 1})
			}
			if d.PayloadID == ref.PARP {
				fs = append(fs, fld{14 + 4, 1}, fld{14 + 5, 1})
			}
			f := rapid.SampledFrom(fs).Draw(t, "field")
			if f.off+f.size <= len(b) {
				if f.size == 1 {
					old := b[f.off]
					b[f.off] = rapid.SampledFrom([]byte{0, 1, old - 1, old + 1, 0x0f, 0x40, 0x45, 0x4f, 0xf0, 0xff}).Draw(t, "v8")
				} else {
					old := uint16(b[f.off])<<8 | uint16(b[f.off+1])
					v := rapid.SampledFrom([]uint16{0, 1, old - 1, old + 1, 19, 20, 21, 39, 40, 0xffff}).Draw(t, "v16")
					b[f.off], b[f.off+1] = byte(v>>8), byte(v)
				}
			}
			label += "+len"
		case 2: // flip bytes
			for j := rapid.IntRange(1, 4).Draw(t, "nflip"); j > 0 && len(b) > 0; j-- {
				pos := rapid.IntRange(0, len(b)-1).Draw(t, "pos")
				if rapid.Bool().Draw(t, "inHeader") && len(b) > 60 {
					pos = rapid.IntRange(0, 59).Draw(t, "hpos")
				}
				b[pos] = rapid.Byte().Draw(t, "nb")
			}
			label += "+flip"
		case 3:
			b = append(b, Bytes(t, rapid.IntRange(1, 64).Draw(t, "npad"), "padbytes")...)
			label += "+pad"
		}
	}
	return b, label
}

// RawFrame draws header-biased raw bytes.
func RawFrame() *rapid.Generator[[]byte] {
	return rapid.Custom(func(t *rapid.T) []byte {
		n := rapid.OneOf(rapid.IntRange(0, 80), rapid.IntRange(0, 1600), rapid.IntRange(1600, 9000)).Draw(t, "rawlen")
		b := Bytes(t, n, "raw")
		if n > 0 && rapid.IntRange(0, 3).Draw(t, "unicastSrc") != 0 && n > 6 {
			b[6] &^= 1
		}
		if n >= 14 {
			et := rapid.SampledFrom(EtherTypes).Draw(t, "rawType")
			b[12], b[13] = byte(et>>8), byte(et)
		}
		if n > 23 {
			b[23] = rapid.SampledFrom(Protos).Draw(t, "rawProto4") // IPv4 protocol
			b[20] = rapid.SampledFrom(Protos).Draw(t, "rawProto6") // IPv6 next header
			if rapid.Bool().Draw(t, "saneIHL") {
				b[14] = 0x45
			}
		}
		return b
	})
}
