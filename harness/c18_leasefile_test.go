//go:build verif

package harness

import (
	"bytes"
	"fmt"
	"net/netip"
	"os"
	"path/filepath"
	"sort"
	"strings"
	"testing"
	"time"

	yaml "gopkg.in/yaml.v2"
	"pgregory.net/rapid"
	"verifharness/drv"
	"verifharness/ref"
)

// C18 — DHCP leases survive restart; a damaged lease file cannot crash the server.

const c18Rule = "ack-only DHCP histories (handshakes and renewals of 1..6 client identities, optional capture) with the lease file on disk, snapshotted after every ACK (each snapshot is a version the non-atomic rewrite may have been producing). restart: a fresh session + handler on the last snapshot must hold exactly the acknowledged bindings, acknowledge their renewals and not offer their addresses to a new client. fault enumeration per snapshot: every prefix, every single-byte substitution with drawn values, deletion and duplication of every line; each damaged file is loaded with New under the watchdog. non-trivial = a damaged file that still parses as YAML with at least one lease; distinct by hash of the damaged file"

type c18Binding struct {
	CID string
	MAC string
	IP  string
}

// readBindings is the independent reader of the lease file: generic YAML, no library types.
func readBindings(b []byte) (out []c18Binding, parsed bool, nleases int) {
	out, parsed, nleases = readBindingsOrdered(b)
	sort.SliceStable(out, func(i, j int) bool { return out[i].CID < out[j].CID })
	return
}

// net1LAN reads net1.lan of a parsed lease file.
func net1LAN(doc map[string]interface{}) (netip.Prefix, bool) {
	n1, _ := doc["net1"].(map[interface{}]interface{})
	p, err := netip.ParsePrefix(fmt.Sprint(n1["lan"]))
	return p, err == nil
}

// readBindingsOrdered returns the allocated entries in file order.
func readBindingsOrdered(b []byte) (out []c18Binding, parsed bool, nleases int) {
	out, parsed, nleases, _ = readLeaseFile(b)
	return
}

// readLeaseFile parses the file once: allocated entries in file order, lease count, the generic document.
func readLeaseFile(b []byte) (out []c18Binding, parsed bool, nleases int, doc map[string]interface{}) {
	if err := yaml.Unmarshal(b, &doc); err != nil || doc == nil {
		return nil, false, 0, nil
	}
	ls, _ := doc["leases"].([]interface{})
	ints := func(v interface{}) string {
		l, _ := v.([]interface{})
		var bb []byte
		for _, x := range l { // as a typed decoder fills a byte: null leaves 0, an integral float converts
			switch n := x.(type) {
			case int:
				bb = append(bb, byte(n))
			case float64:
				bb = append(bb, byte(uint64(n)))
			case nil:
				bb = append(bb, 0)
			}
		}
		return fmt.Sprintf("%x", bb)
	}
	for _, l := range ls {
		m, ok := l.(map[interface{}]interface{})
		if !ok {
			continue
		}
		nleases++
		bd := c18Binding{CID: ints(m["clientid"])}
		if a, ok := m["addr"].(map[interface{}]interface{}); ok {
			bd.MAC = ints(a["mac"])
			bd.IP = fmt.Sprint(a["ip"])
		}
		st, _ := m["state"].(int)
		if f, ok := m["state"].(float64); ok {
			st = int(f)
		}
		if st != 2 {
			continue
		}
		out = append(out, bd)
	}
	return out, true, nleases, doc
}

func bindingSet(b []c18Binding) map[c18Binding]bool {
	m := map[c18Binding]bool{}
	for _, x := range b {
		m[x] = true
	}
	return m
}

type c18Case struct {
	Hist dhcpHistory `json:"hist"`
	// one specific fault (replay); Kind "" = enumerate all faults of the last snapshots
	Kind string `json:"kind,omitempty"` // prefix | subst | delline | dupline
	Snap int    `json:"snap,omitempty"`
	Off  int    `json:"off,omitempty"`
	Val  byte   `json:"val,omitempty"`
	Seed uint64 `json:"seed"`
	// restart: the new session already reports the stations captured during the history as captured
	KeepCapture bool `json:"keep_capture,omitempty"`
}

func genAckOnly(t *rapid.T) dhcpHistory {
	h := dhcpHistory{Cfg: dhcpCfg{Net: rapid.SampledFrom([]int{0, 0, 1, 2, 3, 4}).Draw(t, "net"), Mode: rapid.IntRange(1, 3).Draw(t, "mode"), DNS: rapid.SampledFrom([]int{0, 0, 0, 1, 2}).Draw(t, "dnsCfg")}}
	nclients := rapid.IntRange(1, 6).Draw(t, "nclients")
	for i := rapid.IntRange(1, 10).Draw(t, "nsteps"); i > 0; i-- {
		c := rapid.IntRange(0, nclients-1).Draw(t, "c")
		switch rapid.IntRange(0, 6).Draw(t, "step") {
		case 6: // the binding is given up: the file written after the next ACK (possibly a renewal of another lease) must not keep it
			h.Ops = append(h.Ops, dOp{K: "decline", C: c, Req: "current"})
		case 0, 1, 2, 3:
			x := rapid.IntRange(0, 3).Draw(t, "xid")
			nm, prl := rapid.IntRange(0, 2).Draw(t, "name"), rapid.IntRange(0, 4).Draw(t, "prl")
			// one discover in four asks for the address that shares its last octet with a held one (LANs wider than /24)
			h.Ops = append(h.Ops, dOp{K: "discover", C: c, XID: x, Name: nm, PRL: prl, Req: rapid.SampledFrom([]string{"", "", "", "twin"}).Draw(t, "want")}, dOp{K: "request", C: c, Kind: "sel-ours", Req: "offered", Name: nm, PRL: prl})
		case 4:
			h.Ops = append(h.Ops, dOp{K: "request", C: c, Kind: rapid.SampledFrom([]string{"renew", "reboot"}).Draw(t, "kind"), Req: "current"})
		case 5:
			h.Ops = append(h.Ops, dOp{K: "capture", C: c})
		}
	}
	return h
}

// c18Produce runs the history with a lease file and returns the snapshots taken after every ACK
// together with the bindings the wire-level ledger says were acknowledged at that moment.
func c18Produce(tb drv.TB, rec *drv.Rec, sub string, h dhcpHistory, dir string) (snaps [][]byte, acked [][]c18Binding, ok bool) {
	h.Cfg.File = filepath.Join(dir, "leases.yaml")
	env, err := newDHCPEnv(h.Cfg)
	if err != nil {
		rec.Violation(tb, sub, "c18-new-failed", h, "handler construction failed: %v", err)
		return nil, nil, false
	}
	defer env.close()
	var res dhcpResult
	res.Served = map[int]bool{}
	or := dhcpOracles{C11: true, AfterAck: func(step int, l *dLedger) {
		b, err := os.ReadFile(h.Cfg.File)
		if err != nil {
			return
		}
		var bs []c18Binding
		for ip, k := range l.holder {
			cl := dClients[k%dN]
			cid := cl.cid
			if cid == nil {
				cid = hMACs[cl.mac][:]
			}
			bs = append(bs, c18Binding{CID: fmt.Sprintf("%x", cid), MAC: fmt.Sprintf("%x", hMACs[cl.mac][:]), IP: ip.String()})
		}
		sort.Slice(bs, func(i, j int) bool { return bs[i].CID < bs[j].CID })
		snaps = append(snaps, b)
		acked = append(acked, bs)
	}}
	runDHCPOn(tb, rec, sub, h, or, env, &res, &dLedger{holder: map[netip.Addr]int{}})
	return snaps, acked, true
}

// c18Load starts a fresh session + handler on a lease file and returns what it holds.
func c18Load(cfg dhcpCfg, file string) (env *dhcpEnv, loaded []c18Binding, rewritten []c18Binding, p interface{}, sig, st string, err error) {
	cfg.File = file
	p, sig, st = drv.Catch(func() { env, err = newDHCPEnv(cfg) })
	if p != nil || err != nil {
		return
	}
	for _, l := range env.h.VerifLeases() {
		if l.State == 2 {
			loaded = append(loaded, c18Binding{CID: fmt.Sprintf("%x", l.ClientID), MAC: fmt.Sprintf("%x", l.MAC), IP: l.IP.String()})
		}
	}
	sort.Slice(loaded, func(i, j int) bool { return loaded[i].CID < loaded[j].CID })
	if b, rerr := os.ReadFile(file); rerr == nil {
		rewritten, _, _ = readBindings(b)
	}
	return
}

func c18Restart(tb drv.TB, rec *drv.Rec, sub string, c c18Case) {
	rec.Eval()
	drv.Begin("C18", sub, 'J', mustJSON(c), 60*time.Second)
	defer drv.End()
	dir, _ := os.MkdirTemp("", "c18-")
	defer os.RemoveAll(dir)
	snaps, acked, ok := c18Produce(tb, rec, sub, c.Hist, dir)
	if !ok || len(snaps) == 0 {
		return
	}
	last, want := snaps[len(snaps)-1], acked[len(acked)-1]
	file := filepath.Join(dir, "restart.yaml")
	os.WriteFile(file, last, 0o644)
	// the file as written must say what the ledger says (independent YAML reader)
	inFile, parsed, _ := readBindings(last)
	if !parsed || fmt.Sprint(inFile) != fmt.Sprint(want) {
		rec.Violation(tb, sub, "c18-file-content", c, "lease file after the last ACK holds %v, acknowledged bindings are %v", inFile, want)
		return
	}
	cfg2 := c.Hist.Cfg
	capturedMAC := map[int]bool{}
	if c.KeepCapture {
		for _, op := range c.Hist.Ops {
			if op.K == "capture" {
				m := dClients[op.C%dN].mac
				if !capturedMAC[m] {
					capturedMAC[m] = true
					cfg2.Pre = append(cfg2.Pre, m)
				}
			}
		}
	}
	env, loaded, rewritten, p, sig, st, err := c18Load(cfg2, file)
	if p != nil {
		rec.Violation(tb, sub, "c18-restart-"+sig, c, "New panicked on an intact lease file: %v\n%s", p, st)
		return
	}
	if err != nil {
		rec.Violation(tb, sub, "c18-restart-error", c, "New failed on an intact lease file: %v", err)
		return
	}
	defer env.close()
	if fmt.Sprint(loaded) != fmt.Sprint(want) || fmt.Sprint(rewritten) != fmt.Sprint(want) {
		rec.Violation(tb, sub, "c18-restart-bindings", c, "after restart the handler holds %v (file rewritten as %v), acknowledged bindings were %v", loaded, rewritten, want)
		return
	}
	// renewals of every binding are acknowledged with the same address; a new client asking for a bound address gets another one
	led := &dLedger{holder: map[netip.Addr]int{}}
	ident := map[string]int{}
	for k, cl := range dClients {
		cid := cl.cid
		if cid == nil {
			cid = hMACs[cl.mac][:]
		}
		ident[fmt.Sprintf("%x", cid)] = k
	}
	var probe []dOp
	expectAcks := 0
	for _, b := range want {
		k := ident[b.CID]
		ip := netip.MustParseAddr(b.IP)
		led.holder[ip] = k
		led.may[k] = ip
		probe = append(probe, dOp{K: "request", C: k, Kind: "renew", Req: "current"})
		// a station captured after its lease was acknowledged holds an address of the other subnet: its renewal is
		// NAKed by design (C12); every other binding must be renewed
		nf := cfg2.netfilter().Masked()
		if !capturedMAC[dClients[k].mac] || (nf.Contains(ip) && ip != nf.Addr() && ip != bcastOf(nf)) {
			expectAcks++
		}
	}
	if len(want) > 0 {
		// an identity without a binding asks for a bound address: preferably one that shares its hardware address with a
		// bound identity (another client identifier on the same station - only the lease table tells them apart on a
		// fresh session), else any other
		free := -1
		for pass := 0; pass < 2 && free < 0; pass++ {
			for k := range dClients {
				bound, sameMAC := false, false
				for _, b := range want {
					if ident[b.CID] == k {
						bound = true
					} else if dClients[ident[b.CID]].mac == dClients[k].mac {
						sameMAC = true
					}
				}
				if !bound && (sameMAC || pass == 1) {
					free = k
					break
				}
			}
		}
		if free >= 0 { // asked first, while the new session has not seen any of the stations yet (only the lease table protects the address), and once more after the renewals
			probe = append([]dOp{{K: "discover", C: free, Req: "other", XID: 2}}, append(probe, dOp{K: "discover", C: free, Req: "other", XID: 3})...)
		}
	}
	var res dhcpResult
	res.Served = map[int]bool{}
	acks := 0
	ph := dhcpHistory{Cfg: cfg2, Ops: probe}
	runDHCPOn(tb, rec, sub, ph, dhcpOracles{C11: true, C12: true, AfterAck: func(int, *dLedger) { acks++ }}, env, &res, led)
	if acks < expectAcks || (!c.KeepCapture && acks != len(want)) {
		rec.Violation(tb, sub, "c18-renew-after-restart", c, "%d of %d renewals were acknowledged after the restart, %d expected (bindings %v, captured stations restored: %v)", acks, len(want), expectAcks, want, c.KeepCapture)
		return
	}
	rec.Class(fmt.Sprintf("restart keep-capture=%v captured-stations=%d", c.KeepCapture, len(capturedMAC)))
	if len(want) >= 2 {
		rec.NonTrivial(drv.HashJSON(c.Hist), func() interface{} {
			return map[string]interface{}{"history": dhcpHistString(c.Hist), "bindings": want}
		})
	}
}

// c18Faults enumerates (or replays one of) the faults on the snapshots of a history.
func c18Faults(tb drv.TB, rec *drv.Rec, sub string, c c18Case) {
	drv.Begin("C18", sub, 'J', mustJSON(c), 120*time.Second)
	defer drv.End()
	dir, _ := os.MkdirTemp("", "c18-")
	defer os.RemoveAll(dir)
	snaps, _, ok := c18Produce(tb, rec, sub, c.Hist, dir)
	if !ok || len(snaps) == 0 {
		return
	}
	file := filepath.Join(dir, "damaged.yaml")
	try := func(snap int, kind string, off int, val byte, damaged []byte, orig []c18Binding) bool {
		rec.Eval()
		fc := c
		fc.Kind, fc.Snap, fc.Off, fc.Val = kind, snap, off, val
		drv.Begin("C18", sub, 'J', mustJSON(fc), 30*time.Second)
		os.WriteFile(file, damaged, 0o644)
		env, loaded, _, p, sig, st, err := c18Load(c.Hist.Cfg, file)
		if p != nil {
			rec.Violation(tb, sub, "c18-load-"+sig, fc, "New panicked on a damaged lease file (%s at %d): %v\n%s", kind, off, p, st)
			return false
		}
		if err != nil { // construction refused: allowed ("intact bindings or an empty table"), nothing was loaded
			return true
		}
		env.close()
		home := dNets[c.Hist.Cfg.Net].home
		origSet := bindingSet(orig)
		outcome := "intact"
		if len(loaded) == 0 && len(orig) > 0 {
			outcome = "empty"
		}
		for _, b := range loaded {
			ip, perr := netip.ParseAddr(b.IP)
			if b.CID == "" {
				rec.Violation(tb, sub, "c18-binding-without-clientid", fc, "%s at %d: loaded a binding without client identifier: %+v", kind, off, b)
				return false
			}
			if perr != nil || !home.Contains(ip) {
				rec.Violation(tb, sub, "c18-binding-outside-home-lan", fc, "%s at %d: loaded a binding outside the home LAN %v: %+v", kind, off, home, b)
				return false
			}
			if !origSet[b] {
				outcome = "foreign-binding"
			}
		}
		if outcome == "intact" && len(loaded) != len(orig) {
			outcome = "subset"
		}
		ordered, parsed, nl, doc := readLeaseFile(damaged)
		inFile := ordered
		if parsed { // whatever was loaded must be an entry of the file that was read (differential against the independent reader)
			fileSet := bindingSet(inFile)
			for _, b := range loaded {
				if !fileSet[b] {
					rec.Violation(tb, sub, "c18-invented-binding", fc, "%s at offset %d (value %#x): loaded %+v, which is not an entry of the damaged file as the independent reader sees it (%v); original %v", kind, off, val, b, inFile, orig)
					return false
				}
			}
		}
		if parsed && len(loaded) > 0 {
			// ... and, when anything was loaded at all, every entry of that file that is valid by the loader's own
			// rules (allocated, client id, address inside the home LAN; the last entry of a client id wins)
			want := map[string]c18Binding{}
			fileLAN, lanOK := net1LAN(doc) // the loader filters by the LAN the file itself declares
			for _, b := range ordered {
				ip, perr := netip.ParseAddr(b.IP)
				if !lanOK || b.CID == "" || perr != nil || !home.Contains(ip) || !fileLAN.Contains(ip) {
					continue
				}
				want[b.CID] = b
			}
			got := bindingSet(loaded)
			for _, b := range want {
				if !got[b] {
					rec.Violation(tb, sub, "c18-entry-dropped", fc, "%s at offset %d (value %#x): the damaged file holds the valid entry %+v but the handler loaded only %v", kind, off, val, b, loaded)
					return false
				}
			}
		}
		rec.Class("fault " + kind + " -> " + outcome)
		if parsed && nl > 0 {
			rec.NonTrivial(drv.HashBytes(damaged), func() interface{} {
				return map[string]interface{}{"history": dhcpHistString(c.Hist), "fault": kind, "offset": off, "value": val, "outcome": outcome}
			})
		}
		switch outcome {
		case "subset":
			return !rec.Violation(tb, sub, "c18-subset:"+kind, fc, "%s at offset %d: the handler loaded a proper subset %v of the file's bindings %v", kind, off, loaded, orig) || true
		case "foreign-binding":
			return !rec.Violation(tb, sub, "c18-foreign-binding:"+kind, fc, "%s at offset %d (value %#x): the handler loaded %v, the original file holds %v", kind, off, val, loaded, orig) || true
		}
		return true
	}
	from := len(snaps) - drv.N(1, 2) // quick: the last snapshot; thorough: the last two
	if from < 0 {
		from = 0
	}
	for si := from; si < len(snaps); si++ {
		F := snaps[si]
		orig, _, _ := readBindings(F)
		lines := bytes.SplitAfter(F, []byte("\n"))
		if c.Kind != "" { // replay of one fault
			if c.Snap != si {
				continue
			}
			var d []byte
			switch c.Kind {
			case "prefix":
				d = F[:min(c.Off, len(F))]
			case "subst":
				d = append([]byte(nil), F...)
				if c.Off < len(d) {
					d[c.Off] = c.Val
				}
			case "delline", "dupline":
				d = lineFault(lines, c.Kind, c.Off)
			}
			try(si, c.Kind, c.Off, c.Val, d, orig)
			return
		}
		for k := 0; k <= len(F); k++ {
			if !try(si, "prefix", k, 0, F[:k], orig) {
				return
			}
		}
		nval := drv.N(2, 16)
		for k := 0; k < len(F); k++ {
			for j := 0; j <= nval; j++ {
				v := substValue(F[k], c.Seed, k, j)
				if j == nval { // one more for the characters of a key: the key becomes an unknown field
					if !inKey(F, k) {
						continue
					}
					v = F[k] + 1
				}
				d := append([]byte(nil), F...)
				d[k] = v
				if !try(si, "subst", k, v, d, orig) {
					return
				}
			}
		}
		for li := range lines {
			for _, kind := range []string{"delline", "dupline"} {
				if !try(si, kind, li, 0, lineFault(lines, kind, li), orig) {
					return
				}
			}
		}
	}
}

// inKey reports whether offset k lies in a mapping key (letters directly followed by ':').
func inKey(F []byte, k int) bool {
	isL := func(b byte) bool { return b >= 'a' && b <= 'z' || b >= '0' && b <= '9' || b == '_' }
	if !isL(F[k]) {
		return false
	}
	for k < len(F) && isL(F[k]) {
		k++
	}
	return k < len(F) && F[k] == ':'
}

func lineFault(lines [][]byte, kind string, li int) []byte {
	var d []byte
	for i, l := range lines {
		if i == li && kind == "delline" {
			continue
		}
		d = append(d, l...)
		if i == li && kind == "dupline" {
			d = append(d, l...)
		}
	}
	return d
}

// substValue picks replacement bytes that matter to YAML and to the scalars in the file.
func substValue(old byte, seed uint64, off, j int) byte {
	cands := []byte{' ', '\n', ':', '-', '#', '0', '1', '2', '9', '/', '.', 'a', '[', '{', '"', 0x00, '\t', old + 1, old - 1}
	v := cands[int(drv.Mix(seed^uint64(off)<<8^uint64(j))%uint64(len(cands)))]
	if v == old {
		v = old ^ 0x01
	}
	return v
}

func TestC18(t *testing.T) {
	rec := drv.For("C18", c18Rule)
	drv.Prop(t, rec, "restart", 150, 8000, func(t *rapid.T) c18Case {
		return c18Case{Hist: genAckOnly(t), KeepCapture: rapid.Bool().Draw(t, "keepCapture")}
	},
		func(tb drv.TB, c c18Case) { c18Restart(tb, rec, "restart", c) })
	drv.Prop(t, rec, "faults", 1, 10, func(t *rapid.T) c18Case {
		return c18Case{Hist: genAckOnly(t), Seed: rapid.Uint64().Draw(t, "seed")}
	}, func(tb drv.TB, c c18Case) { c18Faults(tb, rec, "faults", c) })
	// a lease table the size of a real LAN: 110 .. 240 acknowledged clients, then a restart from the file
	type manyLeases struct {
		N   int `json:"n"`
		CID int `json:"cid"` // 0: keyed by chaddr, 1: type-1 identifiers, 2: 20-byte identifiers
	}
	drv.Prop(t, rec, "many-leases", 6, 60, func(t *rapid.T) manyLeases {
		return manyLeases{N: rapid.SampledFrom([]int{110, 130, 180, 240}).Draw(t, "n"), CID: rapid.IntRange(0, 2).Draw(t, "cid")}
	}, func(tb drv.TB, c manyLeases) {
		rec.Eval()
		drv.Begin("C18", "many-leases", 'J', mustJSON(c), 120*time.Second)
		defer drv.End()
		dir, _ := os.MkdirTemp("", "c18-")
		defer os.RemoveAll(dir)
		cfg := dhcpCfg{Net: 1, Mode: 1, File: filepath.Join(dir, "leases.yaml")}
		env, err := newDHCPEnv(cfg)
		if err != nil {
			rec.Violation(tb, "many-leases", "c18-new-failed", c, "handler construction failed: %v", err)
			return
		}
		n := dNets[cfg.Net]
		var want []c18Binding
		for i := 0; i < c.N; i++ {
			mac := ref.MAC{0x00, 0x0d, 0x0d, 0x00, byte(i >> 8), byte(i)}
			var cid []byte
			switch c.CID {
			case 1:
				cid = append([]byte{1}, mac[:]...)
			case 2:
				cid = append([]byte{255, 0, 0, 0, 9, 0, 2, 0, 0, 0xab, 0x11, byte(i >> 8), byte(i), 1, 2, 3, 4, 5, 6}, byte(i))
			}
			send := func(mt byte, opts ...ref.DHCPOpt) (yi netip.Addr, typ byte) {
				m := ref.DHCPMsg{Op: 1, HType: 1, HLen: 6, CHAddr: mac, XID: [4]byte{0xe0, byte(i >> 8), byte(i), 7}}
				m.Options = append([]ref.DHCPOpt{{Code: 53, Data: []byte{mt}}}, opts...)
				if cid != nil {
					m.Options = append(m.Options, ref.DHCPOpt{Code: 61, Data: cid})
				}
				env.conn.Take()
				env.deliver(ref.Eth(ref.MAC{0xff, 0xff, 0xff, 0xff, 0xff, 0xff}, mac, 0x0800, ref.IP4(ref.IP4Hdr{TotalLen: -1, TTL: 64, Proto: 17, Checksum: -1, Dst: [4]byte{255, 255, 255, 255}}, ref.UDP(68, 67, -1, 0, m.Encode(true)))))
				for _, r := range serverReplies(env.conn.Take()) {
					if r.msg.CHAddr == mac {
						return netip.AddrFrom4(r.msg.YIAddr), r.msg.MsgType()
					}
				}
				return netip.Addr{}, 0
			}
			off, typ := send(1)
			if typ != 2 {
				break // pool exhausted (host and router take two addresses of the /24): what was acknowledged so far is the table
			}
			ack, typ := send(3, ref.DHCPOpt{Code: 54, Data: n.host.AsSlice()}, ref.DHCPOpt{Code: 50, Data: off.AsSlice()})
			if typ != 5 || ack != off {
				rec.Violation(tb, "many-leases", "c18-many-handshake", c, "client %d: OFFER %v then reply type %d for %v", i, off, typ, ack)
				env.close()
				return
			}
			id := cid
			if id == nil {
				id = mac[:]
			}
			want = append(want, c18Binding{CID: fmt.Sprintf("%x", id), MAC: fmt.Sprintf("%x", mac[:]), IP: ack.String()})
		}
		env.close()
		sort.Slice(want, func(i, j int) bool { return want[i].CID < want[j].CID })
		env2, loaded, _, p, sig, st, err := c18Load(cfg, cfg.File)
		if p != nil || err != nil {
			rec.Violation(tb, "many-leases", "c18-restart-"+sig, c, "New on the lease file of %d clients: %v %v\n%s", len(want), p, err, st)
			return
		}
		defer env2.close()
		if fmt.Sprint(loaded) != fmt.Sprint(want) {
			missing := 0
			have := map[string]bool{}
			for _, b := range loaded {
				have[b.CID+b.IP] = true
			}
			for _, b := range want {
				if !have[b.CID+b.IP] {
					missing++
				}
			}
			rec.Violation(tb, "many-leases", "c18-restart-bindings", c, "after restart the handler holds %d of the %d acknowledged bindings (%d missing)", len(loaded), len(want), missing)
			return
		}
		rec.Class(fmt.Sprintf("many-leases: %d bindings restored", len(want)))
		rec.NonTrivial(drv.HashJSON(c), func() interface{} { return map[string]interface{}{"clients": c.N, "bindings": len(want)} })
	})
	_ = strings.TrimSpace
}
