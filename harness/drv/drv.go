// Package drv is the run-time support of the verification harness: shard/seed
// plumbing for rapid, statistics for the evidence files, the case journal and
// watchdog, known-finding classification and data-only replay.
//
// One process = one shard. The python driver (/verif/check) starts the shards,
// merges what they write under VERIF_OUT and prints the verdict.
package drv

import (
	"encoding/binary"
	"encoding/hex"
	"encoding/json"
	"flag"
	"fmt"
	"hash/fnv"
	"os"
	"os/signal"
	"path/filepath"
	"runtime"
	"sort"
	"strconv"
	"strings"
	"sync"
	"sync/atomic"
	"syscall"
	"testing"
	"time"

	"pgregory.net/rapid"
)

// TB is the part of testing.TB / *rapid.T the interpreters need.
type TB interface {
	Fatalf(format string, args ...interface{})
	Logf(format string, args ...interface{})
	Helper()
}

// Hex is a byte slice that marshals as a hex string (replay files stay readable).
type Hex []byte

func (h Hex) MarshalJSON() ([]byte, error) { return json.Marshal(hex.EncodeToString(h)) }
func (h *Hex) UnmarshalJSON(b []byte) error {
	var s string
	if err := json.Unmarshal(b, &s); err != nil {
		return err
	}
	d, err := hex.DecodeString(s)
	if err != nil {
		return err
	}
	*h = d
	return nil
}

// ---------------------------------------------------------------------------
// environment

var (
	Tier    = "quick"
	Seed    uint64
	Shard   int
	NShards = 1
	OutDir  string
	Replay  string // path of a replay file; when set every Prop only replays
	devnull *os.File
	known   = map[string]map[string]string{} // property -> signature -> what
)

type knownEntry struct {
	Status    string `json:"status"`
	Property  string `json:"property"`
	Signature string `json:"signature"`
	What      string `json:"what"`
}

func envInt(name string, def int) int {
	if v := os.Getenv(name); v != "" {
		if n, err := strconv.Atoi(v); err == nil {
			return n
		}
	}
	return def
}

// Main is called from TestMain.
func Main(m *testing.M) {
	if v := os.Getenv("VERIF_TIER"); v != "" {
		Tier = v
	}
	if v := os.Getenv("VERIF_SEED"); v != "" {
		if n, err := strconv.ParseInt(v, 10, 64); err == nil {
			Seed = uint64(n)
		}
	}
	Shard = envInt("VERIF_SHARD", 0)
	NShards = envInt("VERIF_NSHARDS", 1)
	for _, a := range os.Args { // a native-fuzz worker process: its journal, hang dump and replay files are its own
		if strings.HasPrefix(a, "-test.fuzzworker") {
			Shard = os.Getpid()
		}
	}
	OutDir = os.Getenv("VERIF_OUT")
	Replay = os.Getenv("VERIF_REPLAY")
	if OutDir == "" {
		OutDir, _ = os.MkdirTemp("", "verif-out-")
	}
	os.MkdirAll(OutDir, 0o755)
	if kf := os.Getenv("VERIF_KNOWN"); kf != "" {
		if b, err := os.ReadFile(kf); err == nil {
			var entries []knownEntry
			if err := json.Unmarshal(b, &entries); err != nil {
				fmt.Fprintf(os.Stderr, "drv: cannot parse %s: %v\n", kf, err)
				os.Exit(2)
			}
			for _, e := range entries {
				if e.Status != "known" {
					continue // fixed entries suppress nothing
				}
				if known[e.Property] == nil {
					known[e.Property] = map[string]string{}
				}
				known[e.Property][e.Signature] = e.What
			}
		}
	}
	devnull, _ = os.OpenFile(os.DevNull, os.O_WRONLY, 0)
	// A leaked packet.Session sends SIGTERM to the process after three minutes
	// without IP frames; the harness closes its sessions, this is a safety net.
	signal.Ignore(syscall.SIGTERM)
	flag.Parse()
	flag.Set("rapid.nofailfile", "true")
	openJournal()
	go watchdog()
	code := m.Run()
	writeStats()
	os.Exit(code)
}

// Quiet redirects os.Stdout to /dev/null for library fmt.Printf noise. It must be
// called from inside a test (the testing package has captured the real stdout
// for its own reporting by then).
func Quiet() {
	if os.Getenv("VERIF_NOISY") == "" && devnull != nil {
		os.Stdout = devnull
	}
}

// N picks the per-shard case count for the tier.
func N(quick, thorough int) int {
	if Tier == "thorough" {
		return thorough
	}
	return quick
}

func hashString(s string) uint64 {
	h := fnv.New64a()
	h.Write([]byte(s))
	return h.Sum64()
}

// Mix is splitmix64.
func Mix(x uint64) uint64 {
	x += 0x9e3779b97f4a7c15
	x = (x ^ (x >> 30)) * 0xbf58476d1ce4e5b9
	x = (x ^ (x >> 27)) * 0x94d049bb133111eb
	return x ^ (x >> 31)
}

func seedFor(prop, sub string) uint64 {
	s := Mix(Seed ^ Mix(uint64(Shard)+1) ^ hashString(prop+"/"+sub))
	if s == 0 {
		s = 0x5eed
	}
	return s
}

// ---------------------------------------------------------------------------
// statistics

type sample struct {
	h uint64
	v json.RawMessage
}

// Rec collects what one property's checks covered in this shard.
type Rec struct {
	Prop string
	Rule string

	mu         sync.Mutex
	evals      int64
	hashes     map[uint64]struct{}
	classes    map[string]int64
	first      []json.RawMessage
	min, max   *sample
	knownHits  map[string]int64
	excluded   map[string]int64
	exhaustive map[string]bool
	notes      []string
	extra      map[string]int64
}

var (
	recsMu sync.Mutex
	recs   = map[string]*Rec{}
)

// For returns the statistics record of a property.
func For(prop, rule string) *Rec {
	recsMu.Lock()
	defer recsMu.Unlock()
	if r, ok := recs[prop]; ok {
		if rule != "" && !strings.Contains(r.Rule, rule) {
			r.Rule += " | " + rule
		}
		return r
	}
	r := &Rec{Prop: prop, Rule: rule, hashes: map[uint64]struct{}{}, classes: map[string]int64{},
		knownHits: map[string]int64{}, excluded: map[string]int64{}, exhaustive: map[string]bool{}, extra: map[string]int64{}}
	recs[prop] = r
	return r
}

// Eval counts one executed case.
func (r *Rec) Eval() { atomic.AddInt64(&r.evals, 1) }

// EvalN counts n executed cases.
func (r *Rec) EvalN(n int) { atomic.AddInt64(&r.evals, int64(n)) }

// Class increments a label counter.
func (r *Rec) Class(label string) {
	r.mu.Lock()
	r.classes[label]++
	r.mu.Unlock()
}

// Add adds to a named extra counter.
func (r *Rec) Add(name string, n int64) {
	r.mu.Lock()
	r.extra[name] += n
	r.mu.Unlock()
}

// Excluded counts a case dropped from generation because it is a listed finding.
func (r *Rec) Excluded(label string) {
	r.mu.Lock()
	r.excluded[label]++
	r.mu.Unlock()
}

// Exhaustive records that a finite sub-space was enumerated completely.
func (r *Rec) Exhaustive(name string, complete bool) {
	r.mu.Lock()
	r.exhaustive[name] = complete
	r.mu.Unlock()
}

// Note attaches a free-text remark to the evidence.
func (r *Rec) Note(s string) {
	r.mu.Lock()
	for _, n := range r.notes {
		if n == s {
			r.mu.Unlock()
			return
		}
	}
	r.notes = append(r.notes, s)
	r.mu.Unlock()
}

// HashBytes hashes a byte string (FNV-1a 64, mixed).
func HashBytes(parts ...[]byte) uint64 {
	h := uint64(14695981039346656037)
	for _, b := range parts {
		for _, c := range b {
			h ^= uint64(c)
			h *= 1099511628211
		}
		h ^= 0xff
		h *= 1099511628211
	}
	return Mix(h)
}

// HashJSON hashes the JSON encoding of v.
func HashJSON(v interface{}) uint64 {
	b, _ := json.Marshal(v)
	return HashBytes(b)
}

// NonTrivial records a distinct non-trivial case. mk renders the case for the
// samples list and is only called when the case is actually kept.
func (r *Rec) NonTrivial(h uint64, mk func() interface{}) {
	r.mu.Lock()
	defer r.mu.Unlock()
	if _, dup := r.hashes[h]; dup {
		return
	}
	r.hashes[h] = struct{}{}
	keep := len(r.first) < 2 || r.min == nil || h < r.min.h || h > r.max.h
	if !keep || mk == nil {
		return
	}
	raw, err := json.Marshal(mk())
	if err != nil {
		return
	}
	if len(raw) > 6000 {
		raw, _ = json.Marshal(map[string]interface{}{"truncated_case_json": string(raw[:6000])})
	}
	if len(r.first) < 2 {
		r.first = append(r.first, raw)
	}
	if r.min == nil || h < r.min.h {
		r.min = &sample{h, raw}
	}
	if r.max == nil || h > r.max.h {
		r.max = &sample{h, raw}
	}
}

type statsOut struct {
	Prop       string            `json:"property"`
	Rule       string            `json:"rule"`
	Evals      int64             `json:"evaluations"`
	Distinct   int               `json:"distinct_nontrivial"`
	Classes    map[string]int64  `json:"classes"`
	Samples    []json.RawMessage `json:"samples"`
	KnownHits  map[string]int64  `json:"known_hits"`
	KnownWhat  map[string]string `json:"known_what"`
	Excluded   map[string]int64  `json:"excluded"`
	Exhaustive map[string]bool   `json:"exhaustive"`
	Notes      []string          `json:"notes"`
	Extra      map[string]int64  `json:"extra"`
	HashFile   string            `json:"hash_file"`
}

func writeStats() {
	recsMu.Lock()
	defer recsMu.Unlock()
	var all []statsOut
	names := make([]string, 0, len(recs))
	for k := range recs {
		names = append(names, k)
	}
	sort.Strings(names)
	for _, k := range names {
		r := recs[k]
		r.mu.Lock()
		so := statsOut{Prop: r.Prop, Rule: r.Rule, Evals: atomic.LoadInt64(&r.evals), Distinct: len(r.hashes),
			Classes: r.classes, KnownHits: r.knownHits, Excluded: r.excluded, Exhaustive: r.exhaustive, Notes: r.notes,
			Extra: r.extra, KnownWhat: map[string]string{}}
		for sig := range r.knownHits {
			so.KnownWhat[sig] = known[r.Prop][sig]
		}
		so.Samples = append(so.Samples, r.first...)
		if r.min != nil {
			so.Samples = append(so.Samples, r.min.v)
		}
		if r.max != nil && (r.min == nil || r.max.h != r.min.h) {
			so.Samples = append(so.Samples, r.max.v)
		}
		hf := filepath.Join(OutDir, fmt.Sprintf("hashes-%s-%d.bin", r.Prop, Shard))
		buf := make([]byte, 0, 8*len(r.hashes))
		var tmp [8]byte
		for h := range r.hashes {
			binary.LittleEndian.PutUint64(tmp[:], h)
			buf = append(buf, tmp[:]...)
		}
		if err := os.WriteFile(hf, buf, 0o644); err == nil {
			so.HashFile = hf
		}
		r.mu.Unlock()
		all = append(all, so)
	}
	b, _ := json.MarshalIndent(all, "", " ")
	os.WriteFile(filepath.Join(OutDir, fmt.Sprintf("stats-%d.json", Shard)), b, 0o644)
}

// ---------------------------------------------------------------------------
// violations, known findings, replay files

// ReplayFile is the data-only reproduction of one case.
type ReplayFile struct {
	Property  string          `json:"property"`
	Sub       string          `json:"sub"`
	Signature string          `json:"signature"`
	Message   string          `json:"message"`
	Seed      uint64          `json:"seed"`
	Shard     int             `json:"shard"`
	Case      json.RawMessage `json:"case"`
}

func replayPath(prop, sub string) string {
	return filepath.Join(OutDir, fmt.Sprintf("replay-%s-%s-%d.json", prop, sanitize(sub), Shard))
}

func sanitize(s string) string {
	return strings.Map(func(r rune) rune {
		if r >= 'a' && r <= 'z' || r >= 'A' && r <= 'Z' || r >= '0' && r <= '9' || r == '-' || r == '_' {
			return r
		}
		return '_'
	}, s)
}

// IsKnown reports whether sig is a listed known finding of the property.
func (r *Rec) IsKnown(sig string) bool {
	_, ok := known[r.Prop][sig]
	return ok
}

// Violation reports a violated oracle. A listed signature is counted and the
// call returns true (the caller decides whether the case can continue); an
// unlisted one writes the replay file and fails the test (does not return).
func (r *Rec) Violation(tb TB, sub, sig string, c interface{}, format string, args ...interface{}) bool {
	tb.Helper()
	if r.IsKnown(sig) {
		r.mu.Lock()
		r.knownHits[sig]++
		r.mu.Unlock()
		return true
	}
	msg := fmt.Sprintf(format, args...)
	raw, _ := json.Marshal(c)
	rf := ReplayFile{Property: r.Prop, Sub: sub, Signature: sig, Message: msg, Seed: Seed, Shard: Shard, Case: raw}
	b, _ := json.MarshalIndent(rf, "", " ")
	os.WriteFile(replayPath(r.Prop, sub), b, 0o644)
	tb.Fatalf("VIOLATION %s/%s sig=%s: %s", r.Prop, sub, sig, msg)
	return false
}

// PanicSig turns a recovered panic + stack into a signature naming the
// innermost frame inside the library.
func PanicSig(stack []byte) string {
	lines := strings.Split(string(stack), "\n")
	for i := 0; i+1 < len(lines); i++ {
		l := lines[i]
		if strings.HasPrefix(l, "github.com/irai/packet") && !strings.Contains(l, "verifharness") {
			fn := l
			if k := strings.LastIndex(fn, "("); k > 0 {
				fn = fn[:k]
			}
			fn = strings.TrimPrefix(fn, "github.com/irai/packet")
			fn = strings.TrimPrefix(fn, "/")
			fn = strings.TrimPrefix(fn, ".")
			file := strings.TrimSpace(lines[i+1])
			if k := strings.Index(file, " "); k > 0 {
				file = file[:k]
			}
			file = filepath.Base(file)
			if k := strings.LastIndex(file, ":"); k > 0 {
				file = file[:k] // drop the line number: signatures survive unrelated edits
			}
			return "panic@" + fn + "@" + file
		}
	}
	return "panic@unknown"
}

// Catch runs f and converts a panic into (recovered value, signature, stack).
func Catch(f func()) (rec interface{}, sig string, stack string) {
	defer func() {
		if r := recover(); r != nil {
			if isRapidControl(r) {
				panic(r)
			}
			buf := make([]byte, 16<<10)
			buf = buf[:runtime.Stack(buf, false)]
			rec, sig, stack = r, PanicSig(buf), trimStack(string(buf))
		}
	}()
	f()
	return nil, "", ""
}

// trimStack keeps the frames between the panic and the harness entry point.
func trimStack(s string) string {
	lines := strings.Split(s, "\n")
	start := 0
	for i, l := range lines {
		if strings.HasPrefix(l, "panic(") {
			start = i + 2
			break
		}
	}
	end := start + 12
	if end > len(lines) {
		end = len(lines)
	}
	return strings.Join(lines[start:end], "\n")
}

// rapid unwinds Fatalf/Skip with its own panic values; they must pass through.
func isRapidControl(r interface{}) bool {
	s := fmt.Sprintf("%T", r)
	return strings.HasPrefix(s, "rapid.") || strings.HasPrefix(s, "*rapid.")
}

// ---------------------------------------------------------------------------
// journal + watchdog

var (
	journalF    *os.File
	journalMu   sync.Mutex
	lastJournal atomic.Value // []byte : replay-file JSON of the running case
	caseStart   int64        // unix nanos; 0 = no case running
	caseBudget  int64        = int64(30 * time.Second)
	caseProp    atomic.Value
)

func openJournal() {
	f, err := os.OpenFile(filepath.Join(OutDir, fmt.Sprintf("journal-%d.bin", Shard)), os.O_CREATE|os.O_RDWR|os.O_TRUNC, 0o644)
	if err == nil {
		journalF = f
	}
}

// Begin journals the case about to run (so that a crash of the whole process or
// a hang still yields a replay file) and arms the watchdog.
// hdr is "property\x00sub"; payload is raw bytes (kind 'B') or JSON (kind 'J').
func Begin(prop, sub string, kind byte, payload []byte, budget time.Duration) {
	if journalF != nil {
		head := prop + "\x00" + sub + "\x00" + string(kind) + "\x00"
		buf := make([]byte, 8+len(head)+len(payload))
		binary.LittleEndian.PutUint32(buf[0:4], uint32(len(head)))
		binary.LittleEndian.PutUint32(buf[4:8], uint32(len(payload)))
		copy(buf[8:], head)
		copy(buf[8+len(head):], payload)
		journalMu.Lock()
		journalF.WriteAt(buf, 0)
		journalMu.Unlock()
	}
	if budget <= 0 {
		budget = 30 * time.Second
	}
	atomic.StoreInt64(&caseBudget, int64(budget))
	caseProp.Store(prop + "\x00" + sub)
	atomic.StoreInt64(&caseStart, time.Now().UnixNano())
}

// End disarms the watchdog.
func End() { atomic.StoreInt64(&caseStart, 0) }

func watchdog() {
	for {
		time.Sleep(250 * time.Millisecond)
		st := atomic.LoadInt64(&caseStart)
		if st == 0 {
			continue
		}
		if time.Now().UnixNano()-st > atomic.LoadInt64(&caseBudget) {
			buf := make([]byte, 4<<20)
			buf = buf[:runtime.Stack(buf, true)]
			os.WriteFile(filepath.Join(OutDir, fmt.Sprintf("hang-%d.stacks", Shard)), buf, 0o644)
			ps, _ := caseProp.Load().(string)
			os.WriteFile(filepath.Join(OutDir, fmt.Sprintf("hang-%d.txt", Shard)), []byte(ps), 0o644)
			fmt.Fprintf(os.Stderr, "drv: watchdog: case of %q exceeded %v; stacks written\n", strings.ReplaceAll(ps, "\x00", "/"), time.Duration(atomic.LoadInt64(&caseBudget)))
			writeStats()
			os.Exit(3)
		}
	}
}

// ---------------------------------------------------------------------------
// property runners

// Prop runs a rapid property for one sub-check of a property: gen draws the case
// as plain data, run interprets it (and is also what replay calls). quick and
// thorough are per-shard case counts.
func Prop[C any](t *testing.T, r *Rec, sub string, quick, thorough int, gen func(*rapid.T) C, run func(tb TB, c C)) {
	t.Helper()
	Quiet()
	if Replay != "" {
		replayOne(t, r, sub, run)
		return
	}
	n := N(quick, thorough)
	if n <= 0 {
		return
	}
	flag.Set("rapid.checks", strconv.Itoa(n))
	flag.Set("rapid.seed", strconv.FormatUint(seedFor(r.Prop, sub), 10))
	if v := os.Getenv("VERIF_SHRINKTIME"); v != "" {
		flag.Set("rapid.shrinktime", v)
	}
	ok := t.Run(sub, func(t *testing.T) {
		rapid.Check(t, func(rt *rapid.T) {
			c := gen(rt)
			run(rt, c)
		})
	})
	End()
	if !ok {
		t.FailNow()
	}
}

// Enum runs run on cases mk(i), i in [0,n) with i ≡ shard (mod nshards).
func Enum[C any](t *testing.T, r *Rec, sub string, n int, mk func(i int) C, run func(tb TB, c C)) {
	t.Helper()
	Quiet()
	if Replay != "" {
		replayOne(t, r, sub, run)
		return
	}
	ok := t.Run(sub, func(t *testing.T) {
		for i := Shard; i < n; i += NShards {
			run(t, mk(i))
		}
	})
	End()
	r.Exhaustive(sub, true)
	if !ok {
		t.FailNow()
	}
}

func replayOne[C any](t *testing.T, r *Rec, sub string, run func(tb TB, c C)) {
	for _, path := range strings.Split(Replay, ",") {
		if path == "" {
			continue
		}
		b, err := os.ReadFile(path)
		if err != nil {
			t.Fatalf("replay: %v", err)
		}
		var rf ReplayFile
		if err := json.Unmarshal(b, &rf); err != nil {
			t.Fatalf("replay %s: %v", path, err)
		}
		if rf.Property != r.Prop || rf.Sub != sub {
			continue
		}
		var c C
		if err := json.Unmarshal(rf.Case, &c); err != nil {
			t.Fatalf("replay %s: cannot decode case: %v", path, err)
		}
		ok := t.Run("replay-"+sanitize(sub)+"-"+sanitize(filepath.Base(path)), func(t *testing.T) { run(t, c) })
		End()
		r.Add("replayed", 1)
		if !ok {
			os.WriteFile(filepath.Join(OutDir, "replay-failed-"+sanitize(filepath.Base(path))), []byte(path), 0o644)
		}
	}
}
