//go:build verif

package harness

import (
	"bytes"
	"fmt"
	"net"
	"net/netip"
	"strings"
	"testing"
	"time"

	"github.com/irai/packet"
	arp "github.com/irai/packet/handlers/arp_spoofer"
	dhcp4 "github.com/irai/packet/handlers/dhcp4_spoofer"
	dns "github.com/irai/packet/handlers/dns_naming"
	icmp "github.com/irai/packet/handlers/icmp_spoofer"
	"golang.org/x/net/dns/dnsmessage"
	"pgregory.net/rapid"
	"verifharness/drv"
	"verifharness/gen"
	"verifharness/ref"
)

// C07 — Every transmitted frame is well-formed and sourced from the host NIC MAC.

const c07Rule = "direct calls of every exported send function (Session ICMP/NDP/Ping, ARP handler, DHCP discover, DNS/mDNS/LLMNR/NBNS/SSDP, ICMPv6 handler) with generated arguments on 4 NIC configurations, and every frame emitted along the C04 (purge probes) and C11 (OFFER/ACK/NAK, forced DECLINE/RELEASE, attack DISCOVER) histories; each frame is decoded by the strict ref decoders (length consistency at every layer, IPv4/ICMP/ICMPv6 checksums, NDP type/code/hop limit/options, ARP header, DHCP cookie/End, DNS via dnsmessage) and compared with the arguments of the call. non-trivial = the frame carries a network layer; distinct by (send path, hash of the frame)"

type c07NIC struct {
	w   gen.World
	gua netip.Prefix
	no6 bool
}

func c07NICs() []c07NIC {
	d := gen.DefaultWorld()
	a := d
	a.HostMAC, a.RouterMAC = ref.MAC{0x02, 0xaa, 0xbb, 0xcc, 0xdd, 0x01}, ref.MAC{0x02, 0xaa, 0xbb, 0xcc, 0xdd, 0xfe}
	a.LAN, a.HostIP, a.RouterIP = netip.MustParsePrefix("10.1.2.16/28"), netip.MustParseAddr("10.1.2.17"), netip.MustParseAddr("10.1.2.30")
	a.HostLLA = netip.MustParseAddr("fe80::aa:1")
	b := d
	b.HostMAC = ref.MAC{0x00, 0x1b, 0x21, 0x3a, 0x4f, 0x60}
	b.LAN, b.HostIP, b.RouterIP = netip.MustParsePrefix("192.168.1.128/25"), netip.MustParseAddr("192.168.1.200"), netip.MustParseAddr("192.168.1.129")
	return []c07NIC{{w: d}, {w: a, gua: netip.MustParsePrefix("2001:db8:1::17/64")}, {w: b}, {w: d, no6: true}}
}

type c07Prefix struct {
	P string `json:"p"`
	L int    `json:"l"`
}

type c07Call struct {
	Fn       string      `json:"fn"`
	NIC      int         `json:"nic"`
	Log      int         `json:"log,omitempty"` // level of the package loggers during the call: 0 info, 1 error, 2 debug
	SrcMAC   drv.Hex     `json:"src_mac,omitempty"`
	SrcIP    string      `json:"src_ip,omitempty"`
	DstMAC   drv.Hex     `json:"dst_mac,omitempty"`
	DstIP    string      `json:"dst_ip,omitempty"`
	TgtMAC   drv.Hex     `json:"tgt_mac,omitempty"`
	TgtIP    string      `json:"tgt_ip,omitempty"`
	ID       uint16      `json:"id,omitempty"`
	Seq      uint16      `json:"seq,omitempty"`
	Name     string      `json:"name,omitempty"`
	XID      drv.Hex     `json:"xid,omitempty"`
	Prefixes []c07Prefix `json:"prefixes,omitempty"`
	RDNSS    []string    `json:"rdnss,omitempty"`
	Managed  bool        `json:"managed,omitempty"`
	Other    bool        `json:"other,omitempty"`
}

func addr(mac drv.Hex, ip string) packet.Addr {
	a := packet.Addr{MAC: net.HardwareAddr(mac)}
	if ip != "" {
		a.IP = netip.MustParseAddr(ip)
	}
	return a
}

type c07Env struct {
	nic  c07NIC
	s    *packet.Session
	conn *recConn
	arp  *arp.Handler
	dhcp *dhcp4.Handler
	dns  *dns.DNSHandler
	ic6  *icmp.Handler6
	n    int
}

var c07Envs = map[int]*c07Env{}

func c07Get(i int) *c07Env {
	if e := c07Envs[i]; e != nil && e.n < 2000 {
		e.n++
		return e
	}
	if e := c07Envs[i]; e != nil {
		e.arp.Close()
		e.dhcp.Close()
		e.ic6.Close()
		closeSession(e.s)
	}
	n := c07NICs()[i]
	e := &c07Env{nic: n}
	e.s, e.conn = newSession(nicCfg{W: n.w, HostGUA: n.gua, NoLLA: n.no6})
	e.arp, _ = arp.New(e.s)
	var err error
	e.dhcp, err = dhcp4.Config{Mode: dhcp4.ModeSecondaryServer, NetfilterIP: netip.PrefixFrom(n.w.HostIP, n.w.LAN.Bits()+1), DNSServer: netip.MustParseAddr("8.8.8.8"), LeaseFilename: ""}.New(e.s)
	if err != nil {
		panic("c07 dhcp: " + err.Error())
	}
	e.dns = dns.VerifNew(e.s)
	e.ic6, _ = icmp.New6(e.s)
	c07Envs[i] = e
	return e
}

func eqMAC(m ref.MAC, h []byte) bool { return bytes.Equal(m[:], h) }

func c07RunCall(tb drv.TB, rec *drv.Rec, sub string, c c07Call) {
	rec.Eval()
	drv.Begin("C07", sub, 'J', mustJSON(c), 30*time.Second)
	defer drv.End()
	e := c07Get(c.NIC % 4)
	w := e.nic.w
	e.conn.Take()
	if c.Log != 0 {
		defer setLogLevel(c.Log)()
	}
	var callErr error
	var want int = 1 // frames expected
	callerDst := false
	src, dst, tgt := addr(c.SrcMAC, c.SrcIP), addr(c.DstMAC, c.DstIP), addr(c.TgtMAC, c.TgtIP)
	var prefixes []packet.PrefixInformation
	for _, p := range c.Prefixes {
		prefixes = append(prefixes, packet.PrefixInformation{Prefix: net.IP(netip.MustParseAddr(p.P).AsSlice()), PrefixLength: uint8(p.L)})
	}
	var rdnss *packet.RecursiveDNSServer
	if len(c.RDNSS) > 0 {
		rdnss = &packet.RecursiveDNSServer{Lifetime: 600 * time.Second}
		for _, s := range c.RDNSS {
			rdnss.Servers = append(rdnss.Servers, net.IP(netip.MustParseAddr(s).AsSlice()))
		}
	}
	var radvs *icmp.RADVS
	t0 := time.Now()
	defer func() { rec.Add("us_"+c.Fn, time.Since(t0).Microseconds()) }()
	if p, sig, st := drv.Catch(func() {
		switch c.Fn {
		case "echo4":
			callErr, callerDst = e.s.ICMP4SendEchoRequest(src, dst, c.ID, c.Seq), true
		case "echo6":
			callErr, callerDst = e.s.ICMP6SendEchoRequest(src, dst, c.ID, c.Seq), true
		case "na":
			callErr, callerDst = e.s.ICMP6SendNeighborAdvertisement(src, dst, tgt), true
		case "ns":
			callErr, callerDst = e.s.ICMP6SendNeighbourSolicitation(src, dst, tgt.IP), true
		case "ra":
			callErr, callerDst = e.s.ICMP6SendRouterAdvertisement(prefixes, rdnss, dst), true
		case "rs":
			callErr = e.s.ICMP6SendRouterSolicitation()
		case "ping":
			callErr, callerDst = e.s.Ping(dst, time.Millisecond), true
		case "ping6":
			callErr, callerDst = e.s.Ping6(src, dst, time.Millisecond), true
		case "arp-request":
			callErr = e.arp.Request(tgt.IP)
		case "arp-requestto":
			callErr = e.arp.RequestTo(dst.MAC, tgt.IP)
		case "arp-probe":
			callErr = e.arp.Probe(tgt.IP)
		case "arp-announce":
			callErr = e.arp.AnnounceTo(dst.MAC, tgt.IP)
		case "arp-raw":
			callErr = e.arp.RequestRaw(dst.MAC, src, tgt)
		case "arp-reply":
			callErr = e.arp.Reply(dst.MAC, src, tgt)
		case "arp-scan":
			callErr = e.arp.Scan()
		case "arp-whois":
			_, callErr = e.arp.WhoIs(tgt.IP)
		case "dhcp-discover":
			var xid []byte
			if len(c.XID) == 4 {
				xid = c.XID
			}
			callErr = e.dhcp.SendDiscoverPacket(net.HardwareAddr(c.SrcMAC), src.IP, xid, c.Name)
		case "mdns-query":
			callErr = e.dns.SendMDNSQuery(c.Name)
		case "llmnr-query":
			callErr = e.dns.SendLLMNRQuery(c.Name)
		case "nbns-query":
			callErr, callerDst = e.dns.SendNBNSQuery(src, dst, c.Name), true
		case "nbns-nodestatus":
			callErr = e.dns.SendNBNSNodeStatus()
		case "ssdp-search":
			callErr = e.dns.SendSSDPSearch()
		case "sleep-proxy":
			callErr, callerDst = e.dns.SendSleepProxyResponse(src, dst, c.ID, c.Name), true
		case "pingall":
			callErr = e.ic6.PingAll()
		case "radvs":
			ic6, _ := icmp.New6(e.s) // a handler of its own: the advertisement loop keeps a pointer to the handler's router record
			radvs, callErr = ic6.StartRADVS(c.Managed, c.Other, prefixes, rdnss)
		}
	}); p != nil {
		rec.Violation(tb, sub, "c07-"+c.Fn+"-"+sig, c, "%s panicked: %v\n%s", c.Fn, p, st)
		c07Envs[c.NIC%4] = nil
		return
	}
	if radvs != nil {
		for i := 0; i < 200 && e.conn.Len() == 0 && len(prefixes) > 0; i++ {
			time.Sleep(time.Millisecond)
		}
		radvs.Stop()
	}
	frames := e.conn.Take()
	fail := func(sig, format string, args ...interface{}) {
		rec.Violation(tb, sub, "c07-"+c.Fn+"-"+sig, c, "%s: %s", c.Fn, fmt.Sprintf(format, args...))
	}
	v4 := func(a packet.Addr) bool { return a.IP.Is4() }
	_ = v4
	// how many frames, and whether the call may legitimately refuse
	refuse := false
	switch c.Fn {
	case "echo4":
		refuse = !v4(src) || !v4(dst)
	case "echo6":
		refuse = !src.IP.Is6() || !dst.IP.Is6()
	case "ping":
		refuse = !v4(dst)
		if !refuse {
			if callErr != packet.ErrTimeout {
				fail("result", "Ping without a reply returned %v", callErr)
				return
			}
			callErr = nil
		}
	case "ping6":
		refuse = !src.IP.Is6() || !dst.IP.Is6()
		if !refuse {
			if callErr != packet.ErrTimeout {
				fail("result", "Ping6 without a reply returned %v", callErr)
				return
			}
			callErr = nil
		}
	case "arp-request", "arp-requestto":
		refuse = !tgt.IP.Is4()
	case "ra", "radvs":
		if len(prefixes) == 0 {
			want = 0
		}
	case "arp-scan":
		bits := w.LAN.Bits()
		want = (1 << uint(32-bits)) - 2 - 2
	case "arp-whois":
		want = 3
		if !tgt.IP.Is4() {
			refuse = true
		} else if e.s.FindIP(tgt.IP) != nil {
			want = 0
		} else if callErr != packet.ErrNotFound {
			fail("result", "WhoIs of an unknown address returned %v", callErr)
			return
		}
		if !refuse {
			callErr = nil
		}
	case "pingall":
		want = 2
		refuse = e.nic.no6
	}
	if refuse {
		if callErr == nil || len(frames) != 0 {
			fail("accepted-invalid-address-family", "err=%v, %d frames sent", callErr, len(frames))
		}
		return
	}
	if callErr != nil {
		fail("error", "returned %v", callErr)
		return
	}
	if len(frames) != want {
		fail("frame-count", "%d frames sent, want %d", len(frames), want)
		return
	}
	for fi, f := range frames {
		in, sig, msg := decodeSent(f.B, w.HostMAC, callerDst)
		if sig != "" {
			rec.Violation(tb, sub, sig+"@"+c.Fn, c, "%s frame %d: %s (% x)", c.Fn, fi, msg, f.B[:min(len(f.B), 80)])
			return
		}
		bad := func(what string, got, exp interface{}) bool {
			fail("field-"+what, "frame %d: %s = %v, requested %v (% x)", fi, what, got, exp, f.B[:min(len(f.B), 80)])
			return true
		}
		expectL3 := func(s, d packet.Addr) bool {
			if len(d.MAC) == 6 && !eqMAC(in.eth.Dst, d.MAC) {
				return bad("ether-dst", in.eth.Dst, d.MAC)
			}
			if in.srcIP != s.IP.Unmap() && in.srcIP != s.IP || in.dstIP != d.IP {
				return bad("ip-addresses", fmt.Sprint(in.srcIP, in.dstIP), fmt.Sprint(s.IP, d.IP))
			}
			return false
		}
		hostLLA := packet.Addr{MAC: hw(w.HostMAC), IP: w.HostLLA}
		switch c.Fn {
		case "echo4", "ping":
			s := src
			if c.Fn == "ping" {
				s = packet.Addr{MAC: hw(w.HostMAC), IP: w.HostIP}
			}
			if in.kind != "ip4-icmp" || expectL3(s, dst) {
				if in.kind != "ip4-icmp" {
					bad("kind", in.kind, "ip4-icmp")
				}
				return
			}
			if in.icmp.Type != 8 || in.icmp.Code != 0 || (c.Fn == "echo4" && (in.icmp.ID != c.ID || in.icmp.Seq != c.Seq)) {
				bad("echo", fmt.Sprint(in.icmp.Type, in.icmp.Code, in.icmp.ID, in.icmp.Seq), fmt.Sprint(8, 0, c.ID, c.Seq))
				return
			}
		case "echo6", "ping6":
			if in.kind != "ip6-icmp6" || expectL3(src, dst) {
				if in.kind != "ip6-icmp6" {
					bad("kind", in.kind, "ip6-icmp6")
				}
				return
			}
			if in.icmp.Type != 128 || in.icmp.Code != 0 || (c.Fn == "echo6" && (in.icmp.ID != c.ID || in.icmp.Seq != c.Seq)) {
				bad("echo", fmt.Sprint(in.icmp.Type, in.icmp.Code, in.icmp.ID, in.icmp.Seq), fmt.Sprint(128, 0, c.ID, c.Seq))
				return
			}
		case "na":
			if in.kind != "ip6-icmp6" || in.icmp.Type != 136 {
				bad("type", fmt.Sprint(in.kind, in.icmp.Type), "NA (136)")
				return
			}
			if expectL3(src, dst) {
				return
			}
			if in.l4[4] != 0x20 || !bytes.Equal(in.l4[8:24], tgt.IP.AsSlice()) {
				bad("na-body", fmt.Sprintf("flags %#x target % x", in.l4[4], in.l4[8:24]), fmt.Sprint("override only, ", tgt.IP))
				return
			}
			if lla, ok := in.ndp(2); !ok || !bytes.Equal(lla, tgt.MAC) {
				bad("na-tlla", lla, tgt.MAC)
				return
			}
		case "ns":
			if in.kind != "ip6-icmp6" || in.icmp.Type != 135 {
				bad("type", fmt.Sprint(in.kind, in.icmp.Type), "NS (135)")
				return
			}
			if expectL3(src, dst) {
				return
			}
			if !bytes.Equal(in.l4[8:24], tgt.IP.AsSlice()) {
				bad("ns-target", in.l4[8:24], tgt.IP)
				return
			}
			if lla, ok := in.ndp(1); !ok || !eqMAC(w.HostMAC, lla) {
				bad("ns-slla", lla, w.HostMAC)
				return
			}
		case "ra", "radvs":
			d := dst
			if c.Fn == "radvs" {
				d = packet.IP6AllNodesAddr
			}
			if in.kind != "ip6-icmp6" || in.icmp.Type != 134 {
				bad("type", fmt.Sprint(in.kind, in.icmp.Type), "RA (134)")
				return
			}
			if !e.nic.no6 && expectL3(hostLLA, d) {
				return
			}
			if lla, ok := in.ndp(1); !ok || !eqMAC(w.HostMAC, lla) {
				bad("ra-slla", lla, w.HostMAC)
				return
			}
			np := 0
			for _, o := range in.ndpOpt {
				if o.Type == 3 {
					if np >= len(c.Prefixes) || int(o.Body[0]) != c.Prefixes[np].L || !bytes.Equal(o.Body[14:30], netip.MustParseAddr(c.Prefixes[np].P).AsSlice()) {
						bad("ra-prefix", fmt.Sprintf("%d % x", o.Body[0], o.Body[14:30]), c.Prefixes)
						return
					}
					np++
				}
			}
			if np != len(c.Prefixes) {
				bad("ra-prefix-count", np, len(c.Prefixes))
				return
			}
			if o, ok := in.ndp(25); ok != (len(c.RDNSS) > 0) || (ok && len(o) != 6+16*len(c.RDNSS)) {
				bad("ra-rdnss", len(o), c.RDNSS)
				return
			}
			if o, ok := in.ndp(5); !ok || len(o) != 6 || int(o[2])<<24|int(o[3])<<16|int(o[4])<<8|int(o[5]) != 1500 {
				bad("ra-mtu", o, 1500)
				return
			}
		case "rs":
			if in.kind != "ip6-icmp6" || in.icmp.Type != 133 {
				bad("type", fmt.Sprint(in.kind, in.icmp.Type), "RS (133)")
				return
			}
			if in.dstIP != netip.MustParseAddr("ff02::2") {
				bad("rs-destination", in.dstIP, "ff02::2 (all routers)")
				return
			}
			if lla, ok := in.ndp(1); !ok || !eqMAC(w.HostMAC, lla) {
				bad("rs-slla", lla, w.HostMAC)
				return
			}
		case "pingall":
			if in.kind != "ip6-icmp6" || (fi == 0 && in.icmp.Type != 133) || (fi == 1 && (in.icmp.Type != 128 || in.dstIP != netip.MustParseAddr("ff02::1"))) {
				bad("pingall", fmt.Sprint(in.icmp.Type, in.dstIP), "RS then echo request to ff02::1")
				return
			}
		case "arp-request", "arp-requestto", "arp-probe", "arp-announce", "arp-raw", "arp-reply", "arp-scan", "arp-whois":
			if in.kind != "arp" {
				bad("kind", in.kind, "arp")
				return
			}
			bc := ref.MAC{0xff, 0xff, 0xff, 0xff, 0xff, 0xff}
			exp := ref.ARPPkt{HType: 1, PType: 0x0800, HLen: 6, PLen: 4, Op: 1, SHA: w.HostMAC, SPA: w.HostIP.As4(), THA: bc}
			ethDst := bc
			t4 := func(a netip.Addr) (o [4]byte) {
				if a.Is4() {
					return a.As4()
				}
				return
			}
			switch c.Fn {
			case "arp-request", "arp-whois":
				exp.TPA = t4(tgt.IP)
			case "arp-requestto":
				exp.TPA = t4(tgt.IP)
				copy(ethDst[:], dst.MAC)
			case "arp-probe":
				exp.SPA, exp.THA, exp.TPA = [4]byte{}, ref.MAC{}, t4(tgt.IP)
			case "arp-announce":
				exp.SPA, exp.TPA = t4(tgt.IP), t4(tgt.IP)
				copy(ethDst[:], dst.MAC)
			case "arp-raw", "arp-reply":
				if c.Fn == "arp-reply" {
					exp.Op = 2
				}
				copy(exp.SHA[:], src.MAC)
				copy(exp.THA[:], tgt.MAC)
				exp.SPA, exp.TPA = t4(src.IP), t4(tgt.IP)
				copy(ethDst[:], dst.MAC)
			case "arp-scan":
				exp.TPA = in.arp.TPA
				ip := netip.AddrFrom4(in.arp.TPA)
				if !w.LAN.Contains(ip) || ip == w.HostIP || ip == w.RouterIP {
					bad("scan-target", ip, "a LAN address other than host and router")
					return
				}
			}
			if in.arp != exp || in.eth.Dst != ethDst {
				bad("arp", fmt.Sprintf("%+v to %x", in.arp, in.eth.Dst), fmt.Sprintf("%+v to %x", exp, ethDst))
				return
			}
		case "dhcp-discover":
			if in.kind != "ip4-udp" || in.udp.Sport != 68 || in.udp.Dport != 67 || in.srcIP != w.HostIP || in.dstIP != w.RouterIP || in.eth.Dst != w.RouterMAC {
				bad("dhcp-envelope", fmt.Sprint(in.kind, in.udp.Sport, in.udp.Dport, in.srcIP, in.dstIP), "udp 68->67 host->router")
				return
			}
			m, err := ref.DecodeDHCP(in.udp.Payload)
			if err != nil || m.Op != 1 || m.MsgType() != 1 || len(in.udp.Payload) < 300 || !eqMAC(m.CHAddr, c.SrcMAC) {
				bad("dhcp-discover", fmt.Sprint(err, m.Op, m.MsgType(), len(in.udp.Payload), m.CHAddr), "BOOTREQUEST/DISCOVER >= 300 bytes with the chaddr given")
				return
			}
			if len(c.XID) == 4 && !bytes.Equal(m.XID[:], c.XID) {
				bad("dhcp-xid", m.XID, c.XID)
				return
			}
			if src.IP.Is4() && m.CIAddr != src.IP.As4() {
				bad("dhcp-ciaddr", m.CIAddr, src.IP)
				return
			}
			if hn, ok := m.Opt(12); (c.Name != "") != ok || string(hn) != c.Name {
				bad("dhcp-hostname", string(hn), c.Name)
				return
			}
		case "mdns-query", "llmnr-query":
			port := uint16(5353)
			if c.Fn == "llmnr-query" {
				port = 5355
			}
			if in.kind != "ip4-udp" || in.udp.Sport != port || in.udp.Dport != port || in.srcIP != w.HostIP {
				bad("dns-envelope", fmt.Sprint(in.kind, in.udp.Sport, in.udp.Dport, in.srcIP), fmt.Sprint("udp ", port))
				return
			}
			var p dnsmessage.Parser
			hd, err := p.Start(in.udp.Payload)
			qs, err2 := p.AllQuestions()
			if err != nil || err2 != nil || hd.Response || len(qs) != 1 || qs[0].Name.String() != c.Name {
				bad("dns-question", fmt.Sprint(err, err2, qs), c.Name)
				return
			}
		case "nbns-query", "nbns-nodestatus":
			if in.kind != "ip4-udp" || in.udp.Sport != 137 || in.udp.Dport != 137 {
				bad("nbns-envelope", fmt.Sprint(in.kind, in.udp.Sport, in.udp.Dport), "udp 137")
				return
			}
			name, qtype := c.Name, uint16(0x20)
			if c.Fn == "nbns-nodestatus" {
				name, qtype = "*", 0x21
				if in.dstIP != netip.MustParseAddr("255.255.255.255") || in.srcIP != w.HostIP {
					bad("nbns-addresses", fmt.Sprint(in.srcIP, in.dstIP), "host -> broadcast")
					return
				}
			} else if expectL3(src, dst) {
				return
			}
			m, err := ref.DecodeDNS(in.udp.Payload)
			if err != nil || len(m.Questions) != 1 || m.Questions[0].Type != qtype || len(m.Questions[0].Name) != 1 || len(m.Questions[0].Name[0]) != 32 {
				bad("nbns-question", fmt.Sprint(err, m.Questions), "one question with a 32-byte first-level encoded name")
				return
			}
			enc := m.Questions[0].Name[0]
			var dec []byte
			for i := 0; i < 32; i += 2 {
				dec = append(dec, (enc[i]-'A')<<4|(enc[i+1]-'A'))
			}
			// a NetBIOS name is 16 bytes: a name of up to 16 bytes is carried as it is, padded with spaces (a trailing NUL or
			// space is part of it: the 16th byte is the name's type suffix); a longer one is cut to 15 bytes and padded
			wantName := name
			if len(wantName) > 16 {
				wantName = wantName[:15]
			}
			wantName += strings.Repeat(" ", 16-len(wantName))
			if string(dec) != wantName {
				bad("nbns-name", fmt.Sprintf("%q", dec), fmt.Sprintf("%q", wantName))
				return
			}
		case "ssdp-search":
			if in.kind != "ip4-udp" || in.udp.Dport != 1900 || in.dstIP != netip.MustParseAddr("239.255.255.250") || in.srcIP != w.HostIP {
				bad("ssdp-envelope", fmt.Sprint(in.kind, in.udp.Dport, in.dstIP), "udp 1900 to 239.255.255.250")
				return
			}
			txt := strings.TrimLeft(string(in.udp.Payload), "\r\n")
			if !strings.HasPrefix(txt, "M-SEARCH * HTTP/1.1") || !strings.Contains(txt, "HOST: 239.255.255.250:1900") || !strings.Contains(txt, `MAN: "ssdp:discover"`) || !strings.Contains(txt, "ST: ") || !strings.HasSuffix(txt, "\r\n\r\n") {
				bad("ssdp-text", txt, "M-SEARCH with HOST, MAN and ST headers")
				return
			}
		case "sleep-proxy":
			if (in.kind != "ip4-udp" && in.kind != "ip6-udp") || expectL3(src, dst) {
				if in.kind != "ip4-udp" && in.kind != "ip6-udp" {
					bad("kind", in.kind, "udp")
				}
				return
			}
			var p dnsmessage.Parser
			hd, err := p.Start(in.udp.Payload)
			if err != nil || !hd.Response || hd.ID != c.ID {
				bad("sleep-proxy-header", fmt.Sprint(err, hd), c.ID)
				return
			}
			p.SkipAllQuestions()
			if an, err := p.AllAnswers(); err != nil || len(an) != 4 {
				bad("sleep-proxy-answers", fmt.Sprint(err, len(an)), 4)
				return
			}
		}
		if in.kind != "arp" || true {
			rec.NonTrivial(drv.HashBytes([]byte(c.Fn), f.B), func() interface{} { return c })
		}
	}
	rec.Class("call " + c.Fn)
}

func genC07Call(t *rapid.T) c07Call {
	nics := c07NICs()
	c := c07Call{NIC: rapid.IntRange(0, 3).Draw(t, "nic"), Log: rapid.SampledFrom([]int{0, 0, 1, 2}).Draw(t, "log")}
	w := nics[c.NIC].w
	fns := []string{"echo4", "echo6", "na", "ns", "ra", "rs", "arp-request", "arp-requestto", "arp-probe", "arp-announce", "arp-raw", "arp-reply", "dhcp-discover", "mdns-query", "llmnr-query", "nbns-query", "nbns-nodestatus", "ssdp-search", "sleep-proxy", "pingall"}
	c.Fn = rapid.SampledFrom(fns).Draw(t, "fn")
	// the slow calls (sleeping / waiting for time-outs) are drawn rarely; rapid favours the ends of a range, so the trigger sits in the middle
	if r := rapid.IntRange(0, 999).Draw(t, "rare"); r >= 500 && r <= 502 {
		c.Fn = rapid.SampledFrom([]string{"ping", "ping6", "radvs", "arp-whois", "arp-scan"}).Draw(t, "rarefn")
		if c.Fn == "arp-scan" {
			c.NIC = 1
			w = nics[1].w
		}
	}
	mac := func(l string) drv.Hex { m := w.MAC().Draw(t, l); return drv.Hex(m[:]) }
	umac := func(l string) drv.Hex { m := w.UnicastMAC().Draw(t, l); return drv.Hex(m[:]) }
	ip4 := func(l string) string { return netip.AddrFrom4(w.IP4().Draw(t, l)).String() }
	ip6 := func(l string) string { return netip.AddrFrom16(w.IP6().Draw(t, l)).String() }
	anyIP := func(l string) string {
		if rapid.IntRange(0, 9).Draw(t, l+"fam") == 0 {
			return ip6(l)
		}
		return ip4(l)
	}
	switch c.Fn {
	case "echo4", "ping":
		c.SrcMAC, c.SrcIP, c.DstMAC, c.DstIP = mac("sm"), anyIP("si"), umac("dm"), anyIP("di")
	case "echo6", "ping6", "na", "ns":
		c.SrcMAC, c.DstMAC, c.SrcIP, c.DstIP = mac("sm"), mac("dm"), ip6("si"), ip6("di")
		if c.Fn == "echo6" && rapid.IntRange(0, 9).Draw(t, "v4arg") == 0 {
			c.DstIP = ip4("di4")
		}
		c.TgtMAC, c.TgtIP = umac("tm"), ip6("ti")
	case "ra", "radvs":
		c.DstMAC, c.DstIP = mac("dm"), ip6("di")
		for i := rapid.IntRange(0, 3).Draw(t, "nprefix"); i > 0; i-- {
			l := rapid.SampledFrom([]int{64, 64, 48, 56, 128, 0}).Draw(t, "plen")
			a := [16]byte{0x20, 0x01, 0x0d, 0xb8, byte(rapid.IntRange(0, 255).Draw(t, "p4")), byte(rapid.IntRange(0, 255).Draw(t, "p5")), byte(rapid.IntRange(0, 255).Draw(t, "p6")), byte(rapid.IntRange(0, 255).Draw(t, "p7"))}
			pf, _ := netip.AddrFrom16(a).Prefix(l)
			c.Prefixes = append(c.Prefixes, c07Prefix{pf.Addr().String(), l})
		}
		for i := rapid.IntRange(0, 2).Draw(t, "nrdnss"); i > 0; i-- {
			c.RDNSS = append(c.RDNSS, ip6("rdnss"))
		}
		c.Managed, c.Other = rapid.Bool().Draw(t, "m"), rapid.Bool().Draw(t, "o")
	case "arp-request", "arp-requestto", "arp-whois":
		c.DstMAC, c.TgtIP = mac("dm"), anyIP("ti")
	case "arp-probe", "arp-announce":
		c.DstMAC, c.TgtIP = mac("dm"), ip4("ti")
	case "arp-raw", "arp-reply":
		c.DstMAC, c.SrcMAC, c.SrcIP, c.TgtMAC, c.TgtIP = mac("dm"), mac("sm"), ip4("si"), mac("tm"), ip4("ti")
	case "dhcp-discover":
		c.SrcMAC = mac("chaddr")
		if rapid.Bool().Draw(t, "hasci") {
			c.SrcIP = anyIP("ci")
		}
		if rapid.Bool().Draw(t, "hasxid") {
			c.XID = gen.Bytes(t, 4, "xid")
		}
		// host names of every length up to the 63-octet label limit: the option list grows past the 60 bytes that fit the
		// 300-byte BOOTP minimum
		c.Name = strings.Repeat("h", rapid.OneOf(rapid.IntRange(0, 63), rapid.SampledFrom([]int{0, 5, 45, 46, 47, 48, 62, 63})).Draw(t, "nameLen"))
	case "mdns-query", "llmnr-query":
		c.Name = rapid.SampledFrom([]string{"host.local.", "_services._dns-sd._udp.local.", "a.b.c.d.e.local.", "x.", "printer-0123456789abcdef0123456789abcdef.local."}).Draw(t, "name")
	case "nbns-query":
		c.SrcMAC, c.SrcIP, c.DstMAC, c.DstIP = drv.Hex(w.HostMAC[:]), w.HostIP.String(), mac("dm"), ip4("di")
		if rapid.IntRange(0, 4).Draw(t, "otherSrcMAC") == 0 {
			c.SrcMAC = umac("sm")
		}
		c.Name = rapid.SampledFrom([]string{"WORKSTATION", "A", "FILESERVER-123", "SIXTEENCHARSNAME", "LONGERTHANSIXTEENCHARS", "*", "WORKGROUP      \x00", "NAS\x00", "FIFTEEN-CHARS-X\x20", "SIXTEENCHARSNAME    ", "SEVENTEEN-CHARS-X ", "name with  spaces "}).Draw(t, "name")
	case "sleep-proxy":
		c.SrcMAC, c.DstMAC = drv.Hex(w.HostMAC[:]), mac("dm")
		if rapid.Bool().Draw(t, "v6") {
			c.SrcIP, c.DstIP = ip6("si"), ip6("di")
		} else {
			c.SrcIP, c.DstIP = ip4("si"), ip4("di")
		}
		c.Name = "sleepproxy"
	}
	c.ID, c.Seq = rapid.Uint16().Draw(t, "id"), rapid.Uint16().Draw(t, "seq")
	return c
}

func TestC07(t *testing.T) {
	rec := drv.For("C07", c07Rule)
	drv.Prop(t, rec, "calls", 15000, 300000, genC07Call, func(tb drv.TB, c c07Call) { c07RunCall(tb, rec, "calls", c) })

	// frames emitted along the host-tracking histories: purge probes (sent from a goroutine: wait for them)
	drv.Prop(t, rec, "history-probes", 600, 15000, func(t *rapid.T) history { return genHistory(t, false, false) }, func(tb drv.TB, h history) {
		rec.Eval()
		drv.Begin("C07", "history-probes", 'J', mustJSON(h), 30*time.Second)
		defer drv.End()
		hostMAC := hMACs[mOwn]
		n := 0
		runHistory(tb, rec, "history-probes", h, histOracles{Monitor: func(step int, op hOp, frames []sentFrame) (string, string) {
			for _, f := range frames {
				n++
				in, sig, msg := decodeSent(f.B, hostMAC, false)
				if sig != "" {
					return sig + "@purge-probe", fmt.Sprintf("frame emitted by the session: %s (% x)", msg, f.B[:min(len(f.B), 64)])
				}
				switch in.kind {
				case "arp":
					if in.arp.Op != 1 || in.arp.SHA != hostMAC || netip.AddrFrom4(in.arp.SPA) != hLANs[h.Cfg.LAN].host {
						return "c07-probe-arp-fields@purge-probe", fmt.Sprintf("ARP probe %+v", in.arp)
					}
				case "ip6-icmp6":
					if in.icmp.Type != 135 && in.icmp.Type != 128 {
						return "c07-probe-icmp6-type@purge-probe", fmt.Sprintf("ICMPv6 type %d", in.icmp.Type)
					}
				default:
					return "c07-probe-kind@purge-probe", "unexpected probe kind " + in.kind
				}
				rec.NonTrivial(drv.HashBytes([]byte("probe"), f.B), func() interface{} { return map[string]interface{}{"history": histString(h), "frame": drv.Hex(f.B)} })
			}
			return "", ""
		}})
		rec.Add("probe_frames", int64(n))
	})

	// frames emitted along the DHCP histories
	drv.Prop(t, rec, "history-dhcp", 600, 15000, genDHCPHistory, func(tb drv.TB, h dhcpHistory) {
		rec.Eval()
		drv.Begin("C07", "history-dhcp", 'J', mustJSON(h), 30*time.Second)
		defer drv.End()
		n := dNets[h.Cfg.Net]
		runDHCP(tb, rec, "history-dhcp", h, dhcpOracles{Frames: func(step int, op dOp, frames []sentFrame) (string, string) {
			for _, f := range frames {
				in, sig, msg := decodeSent(f.B, hMACs[mOwn], false)
				if sig != "" {
					return sig + "@dhcp", fmt.Sprintf("frame emitted by the DHCP handler: %s", msg)
				}
				if in.kind != "ip4-udp" {
					return "c07-dhcp-kind@dhcp", "unexpected frame kind " + in.kind
				}
				m, err := ref.DecodeDHCP(in.udp.Payload)
				if err != nil {
					return "c07-dhcp-malformed@dhcp", err.Error()
				}
				if len(in.udp.Payload) < 300 {
					return "c07-dhcp-short@dhcp", fmt.Sprintf("DHCP message of %d bytes (BOOTP minimum is 300)", len(in.udp.Payload))
				}
				switch {
				case in.udp.Sport == 67 && in.udp.Dport == 68: // our replies
					if m.Op != 2 || in.srcIP != n.host {
						return "c07-dhcp-reply-fields@dhcp", fmt.Sprintf("reply op=%d from %v", m.Op, in.srcIP)
					}
					// where the reply goes: to the limited broadcast address and the broadcast MAC, or - only to a client
					// that wrote from an address of its own (renewing / rebinding / releasing; RFC 2131 4.1 unicasts to a
					// non-zero ciaddr whatever the broadcast flag says) - to that client's MAC and a unicast address;
					// never a mixture of the two, never another station
					cmac := hMACs[dClients[op.C%dN].mac]
					bc := in.eth.Dst == ref.MAC{0xff, 0xff, 0xff, 0xff, 0xff, 0xff} && in.dstIP == netip.AddrFrom4([4]byte{255, 255, 255, 255})
					uc := in.eth.Dst == cmac && in.dstIP.Is4() && in.dstIP != netip.AddrFrom4([4]byte{255, 255, 255, 255}) && !in.dstIP.IsUnspecified()
					hasSrc := (op.K == "request" && (op.Kind == "renew" || op.Kind == "rebind" || op.Kind == "renew-other")) || op.K == "release"
					if !(bc || (uc && hasSrc)) {
						return "c07-dhcp-reply-destination@dhcp", fmt.Sprintf("reply to %v (client MAC %x, broadcast flag %v) sent to %x / %v", op, cmac[:], op.Bcast, in.eth.Dst[:], in.dstIP)
					}
				case in.udp.Sport == 68 && in.udp.Dport == 67: // client-side frames towards the real server
					if m.Op != 1 || in.dstIP != n.router || in.eth.Dst != hMACs[mRouter] || in.srcIP != n.host {
						return "c07-dhcp-client-fields@dhcp", fmt.Sprintf("client frame op=%d %v->%v (%x)", m.Op, in.srcIP, in.dstIP, in.eth.Dst)
					}
					if mt := m.MsgType(); mt != 1 && mt != 4 && mt != 7 {
						return "c07-dhcp-client-type@dhcp", fmt.Sprintf("client frame of type %d", mt)
					}
					// the forged DECLINE / RELEASE must be what RFC 2131 (table 5) says a client sends, or the real server ignores it:
					// DECLINE: ciaddr 0, requested address and server identifier present; RELEASE: ciaddr = the address given up,
					// server identifier present; neither carries yiaddr / siaddr / giaddr
					if mt := m.MsgType(); mt == 4 || mt == 7 {
						zero := [4]byte{}
						_, has50 := m.Opt(50)
						_, has54 := m.Opt(54)
						switch {
						case m.YIAddr != zero || m.SIAddr != zero || m.GIAddr != zero:
							return "c07-dhcp-forged-fields@dhcp", fmt.Sprintf("forged message of type %d carries yiaddr %v siaddr %v giaddr %v", mt, m.YIAddr, m.SIAddr, m.GIAddr)
						case mt == 4 && (m.CIAddr != zero || !has50 || !has54):
							return "c07-dhcp-forged-decline@dhcp", fmt.Sprintf("forged DECLINE: ciaddr %v, requested address option present=%v, server identifier present=%v", m.CIAddr, has50, has54)
						case mt == 7 && (m.CIAddr == zero || !has54):
							return "c07-dhcp-forged-release@dhcp", fmt.Sprintf("forged RELEASE: ciaddr %v, server identifier present=%v (options %v)", m.CIAddr, has54, m.Options)
						}
					}
				default:
					return "c07-dhcp-ports@dhcp", fmt.Sprintf("ports %d->%d", in.udp.Sport, in.udp.Dport)
				}
				rec.NonTrivial(drv.HashBytes([]byte("dhcp"), f.B[:min(len(f.B), 300)]), func() interface{} { return map[string]interface{}{"history": dhcpHistString(h), "frame": drv.Hex(f.B)} })
			}
			return "", ""
		}})
	})
}
