//go:build verif

package harness

import (
	"bytes"
	"encoding/binary"
	"fmt"
	"net/netip"
	"testing"
	"time"

	"github.com/irai/packet"
	"pgregory.net/rapid"
	"verifharness/drv"
	"verifharness/gen"
	"verifharness/ref"
)

// C02 — Parse and the views decode as an RFC reference decoder.

const c02Rule = "classification: ref-built frames of every EtherType / IP protocol / UDP port class (both directions, precedence overlaps), well-formed or with one truncated / length-inconsistent header (plus a minority of multi-mutated frames), compared field by field with ref.Decode; field positions: per-view field structs encoded by ref builders, every getter compared with the drawn field. non-trivial = the reference entered the network layer (classification) / the view has >=3 non-zero fields; distinct by hash of the bytes"

type c02Case struct {
	Data drv.Hex `json:"data"`
	View string  `json:"view,omitempty"`
	Cut  int     `json:"cut,omitempty"` // the violation was seen on the first Cut bytes parsed in place (informational)
}

var (
	c02S     *packet.Session
	c02Count int
)

func c02Session() *packet.Session {
	if c02S == nil || c02Count >= 4000 {
		if c02S != nil {
			closeSession(c02S)
		}
		c02S, _ = newSession(defaultNIC())
		c02Count = 0
	}
	c02Count++
	return c02S
}

func c02Classify(tb drv.TB, rec *drv.Rec, sub string, data []byte) {
	rec.Eval()
	drv.Begin("C02", sub, 'B', data, 20*time.Second)
	defer drv.End()
	cs := c02Case{Data: data}
	in := make([]byte, len(data), packet.EthMaxSize+len(data)) // README loop: a receive buffer of EthMaxSize
	copy(in, data)
	want := ref.Decode(data)
	o, sig, msg := observeParse(c02Session(), in)
	if sig != "" {
		rec.Violation(tb, sub, sig, cs, "%s", msg)
		return
	}
	class := fmt.Sprintf("pid=%d err=%v", want.PayloadID, want.Err)
	if want.Lenient {
		rec.Class("lenient: ipv6 with bytes after 40+PayloadLen, lib err=" + fmt.Sprint(o.Err))
		if o.Err {
			return
		}
	} else if o.Err != want.Err {
		rec.Violation(tb, sub, fmt.Sprintf("err-mismatch pid=%d want=%v", want.PayloadID, want.Err), cs,
			"Parse error verdict %v, reference %v (reference class %d) on %d bytes", o.Err, want.Err, want.PayloadID, len(data))
		return
	}
	rec.Class(class)
	if want.Err {
		if want.Depth >= 1 {
			rec.NonTrivial(drv.HashBytes(data), func() interface{} { return c02Case{Data: append([]byte(nil), data...)} })
		}
		return
	}
	bad := func(field string, got, exp interface{}) {
		rec.Violation(tb, sub, "field-"+field, cs, "Parse %s = %v, reference %v (class %d, %d bytes)", field, got, exp, want.PayloadID, len(data))
	}
	if o.PID != want.PayloadID {
		bad("PayloadID", o.PID, want.PayloadID)
		return
	}
	if o.SrcMAC != string(want.SrcMAC[:]) || o.DstMAC != string(want.DstMAC[:]) {
		bad("MAC", fmt.Sprintf("% x/% x", o.SrcMAC, o.DstMAC), fmt.Sprintf("% x/% x", want.SrcMAC, want.DstMAC))
		return
	}
	if o.SrcIP != want.SrcIP || o.DstIP != want.DstIP {
		bad("IP", fmt.Sprint(o.SrcIP, o.DstIP), fmt.Sprint(want.SrcIP, want.DstIP))
		return
	}
	if o.SrcPort != want.SrcPort || o.DstPort != want.DstPort {
		bad("Port", fmt.Sprint(o.SrcPort, o.DstPort), fmt.Sprint(want.SrcPort, want.DstPort))
		return
	}
	expOff := func(o int) int {
		if o == 0 {
			return -1 // view absent
		}
		return o
	}
	for _, f := range []struct {
		name     string
		got, exp int
	}{{"IP4", o.OffIP4, expOff(want.OffIP4)}, {"IP6", o.OffIP6, expOff(want.OffIP6)}, {"UDP", o.OffUDP, expOff(want.OffUDP)}, {"TCP", o.OffTCP, expOff(want.OffTCP)}} {
		got := f.got
		if got == -3 { // empty view at the very end
			got = len(data)
		}
		if got != f.exp {
			bad("offset-"+f.name, f.got, f.exp)
			return
		}
	}
	if o.HasIP != (want.OffIP4 != 0 || want.OffIP6 != 0) {
		bad("HasIP", o.HasIP, !o.HasIP)
		return
	}
	// payload: the start is fixed by the statement; the end may be the frame end (documented) or the IP end (lenient)
	gotPay := o.OffPay
	if gotPay == -3 {
		gotPay = len(data)
	}
	if gotPay != want.OffPayload {
		bad("offset-Payload", o.OffPay, want.OffPayload)
		return
	}
	end := gotPay + o.LenPay
	if end != len(data) && !(want.IPEnd > 0 && end == want.IPEnd) {
		bad("end-Payload", end, fmt.Sprintf("%d or %d", len(data), want.IPEnd))
		return
	}
	// The same frame cut short at its layer boundaries, parsed in place: the receive buffer still holds the rest of
	// the longer frame behind the slice (a reused buffer). The error verdict and the class must be those of the
	// bytes inside the slice alone.
	for _, k := range []int{14, 15, want.OffIP4 + 19, want.OffIP4 + 20, want.OffIP6 + 39, want.OffIP6 + 40, want.OffUDP + 7, want.OffUDP + 8, want.OffTCP + 19, want.OffTCP + 20, want.OffPayload, want.OffPayload + 7, want.OffPayload + 27, want.OffPayload + 28} {
		if k < 14 || k >= len(data) {
			continue
		}
		w2 := ref.Decode(data[:k])
		if w2.Lenient {
			continue
		}
		o2, sig2, msg2 := observeParse(c02Session(), in[:k])
		cut := c02Case{Data: data, Cut: k}
		if sig2 != "" {
			rec.Violation(tb, sub, sig2, cut, "prefix of %d bytes parsed inside the buffer that holds the whole frame: %s", k, msg2)
			return
		}
		if o2.Err != w2.Err || (!o2.Err && o2.PID != w2.PayloadID) {
			rec.Violation(tb, sub, fmt.Sprintf("prefix-in-place pid=%d want-err=%v", w2.PayloadID, w2.Err), cut,
				"the first %d of %d bytes parsed in place (rest of the frame still behind the slice): error %v class %d, reference error %v class %d", k, len(data), o2.Err, o2.PID, w2.Err, w2.PayloadID)
			return
		}
	}
	if want.Depth >= 1 {
		rec.NonTrivial(drv.HashBytes(data), func() interface{} { return c02Case{Data: append([]byte(nil), data...)} })
	}
}

// singleDefect applies at most one truncation / length inconsistency to a well-formed frame.
func singleDefect(t *rapid.T, b []byte) ([]byte, string) {
	b = append([]byte(nil), b...)
	d := ref.Decode(b)
	switch rapid.IntRange(0, 5).Draw(t, "defect") {
	case 0, 1:
		return b, "wellformed"
	case 2: // truncate at / around a layer boundary
		n := rapid.SampledFrom(gen.Boundaries(b)).Draw(t, "cut")
		if n >= 0 && n < len(b) {
			return b[:n], "truncated"
		}
		return b, "wellformed"
	case 3: // truncate anywhere
		return b[:rapid.IntRange(0, len(b)).Draw(t, "cutAny")], "truncated"
	case 4: // one length field
		put16 := func(off int, vals []int) {
			v := rapid.SampledFrom(vals).Draw(t, "v16")
			if off+2 <= len(b) && v >= 0 && v <= 0xffff {
				binary.BigEndian.PutUint16(b[off:], uint16(v))
			}
		}
		switch {
		case d.OffIP4 > 0 && rapid.Bool().Draw(t, "ihlOrTotal"):
			ihl := int(b[d.OffIP4]&0x0f) * 4
			tl := int(binary.BigEndian.Uint16(b[d.OffIP4+2:]))
			if rapid.Bool().Draw(t, "ihl") {
				b[d.OffIP4] = b[d.OffIP4]&0xf0 | byte(rapid.SampledFrom([]int{0, 1, 4, 5, 6, 15, tl / 4, tl/4 + 1}).Draw(t, "newihl"))&0x0f
			} else {
				put16(d.OffIP4+2, []int{0, 19, ihl - 1, ihl, ihl + 1, tl - 1, tl + 1, len(b) - 14, len(b) - 13, 0xffff})
			}
			return b, "ip4len"
		case d.OffIP6 > 0:
			pl := int(binary.BigEndian.Uint16(b[d.OffIP6+4:]))
			put16(d.OffIP6+4, []int{0, pl - 1, pl + 1, pl + 8, 0xffff})
			return b, "ip6len"
		case d.OffTCP > 0:
			b[d.OffTCP+12] = byte(rapid.SampledFrom([]int{0, 1, 4, 5, 6, 15}).Draw(t, "doff"))<<4 | b[d.OffTCP+12]&0x0f
			return b, "tcpdoff"
		case d.PayloadID == ref.PARP && len(b) >= 20:
			b[18] = rapid.SampledFrom([]byte{0, 5, 6, 7, 8, 255}).Draw(t, "hlen")
			return b, "arphlen"
		}
		return b, "wellformed"
	}
	// padding after the frame
	return append(b, gen.Bytes(t, rapid.IntRange(1, 46).Draw(t, "npad"), "pad")...), "padded"
}

// ---- oracle 2: field positions

type fieldCheck struct {
	tb   drv.TB
	rec  *drv.Rec
	sub  string
	view string
	cs   c02Case
	bad  bool
}

func (f *fieldCheck) eq(getter string, got, want interface{}) {
	if f.bad {
		return
	}
	ok := false
	switch g := got.(type) {
	case []byte:
		w, _ := want.([]byte)
		ok = bytes.Equal(g, w)
	default:
		ok = got == want
	}
	if !ok {
		f.bad = true
		f.rec.Violation(f.tb, f.sub, "getter-"+f.view+"."+getter, f.cs, "%s.%s() = %v, RFC position holds %v", f.view, getter, got, want)
	}
}

func c02Fields(tb drv.TB, rec *drv.Rec, sub string, cs c02Case, check func(f *fieldCheck, b []byte)) {
	rec.Eval()
	drv.Begin("C02", sub, 'J', mustJSON(cs), 20*time.Second)
	defer drv.End()
	f := &fieldCheck{tb: tb, rec: rec, sub: sub, view: cs.View, cs: cs}
	b := make([]byte, len(cs.Data), len(cs.Data)+32)
	copy(b, cs.Data)
	if p, sig, st := drv.Catch(func() { check(f, b) }); p != nil {
		rec.Violation(tb, sub, "getter-"+cs.View+"-"+sig, cs, "%s getter panicked: %v\n%s", cs.View, p, st)
		return
	}
	if !f.bad {
		nz := 0
		for _, c := range cs.Data {
			if c != 0 {
				nz++
			}
		}
		if nz >= 3 {
			rec.NonTrivial(drv.HashBytes([]byte(cs.View), cs.Data), func() interface{} { return cs })
		}
	}
}

func u16(b []byte) uint16 { return binary.BigEndian.Uint16(b) }
func u32(b []byte) uint32 { return binary.BigEndian.Uint32(b) }

// c02ViewChecks re-derives every getter's expected value from the raw bytes at
// the RFC-defined position (the bytes themselves come from ref builders fed
// with drawn field values, see TestC02).
var c02ViewChecks = map[string]func(f *fieldCheck, b []byte){
	"IP4": func(f *fieldCheck, b []byte) {
		p := packet.IP4(b)
		if p.IsValid() != nil {
			return
		}
		ihl, tl := int(b[0]&0x0f)*4, int(u16(b[2:]))
		f.eq("Version", p.Version(), int(b[0]>>4))
		f.eq("IHL", p.IHL(), ihl)
		f.eq("TOS", p.TOS(), int(b[1]))
		f.eq("TotalLen", p.TotalLen(), tl)
		f.eq("ID", p.ID(), int(u16(b[4:])))
		f.eq("Flags", p.Flags(), b[6]&0xe0)
		f.eq("FlagDontFragment", p.FlagDontFragment(), b[6]&0x40 != 0)
		f.eq("FlagMoreFragments", p.FlagMoreFragments(), b[6]&0x20 != 0)
		f.eq("Fragment", p.Fragment(), u16(b[6:])&0x1fff)
		f.eq("TTL", p.TTL(), int(b[8]))
		f.eq("Protocol", p.Protocol(), b[9])
		f.eq("Checksum", p.Checksum(), int(u16(b[10:])))
		f.eq("Src", p.Src(), netip.AddrFrom4(*(*[4]byte)(b[12:16])))
		f.eq("Dst", p.Dst(), netip.AddrFrom4(*(*[4]byte)(b[16:20])))
		f.eq("Payload", []byte(p.Payload()), b[ihl:tl])
	},
	"IP6": func(f *fieldCheck, b []byte) {
		p := packet.IP6(b)
		if p.IsValid() != nil {
			return
		}
		f.eq("Version", p.Version(), int(b[0]>>4))
		f.eq("TrafficClass", p.TrafficClass(), int(b[0]&0x0f)<<4|int(b[1]>>4))
		f.eq("FlowLabel", p.FlowLabel(), int(b[1]&0x0f)<<16|int(b[2])<<8|int(b[3]))
		f.eq("PayloadLen", p.PayloadLen(), u16(b[4:]))
		f.eq("NextHeader", p.NextHeader(), b[6])
		f.eq("HopLimit", p.HopLimit(), b[7])
		f.eq("Src", p.Src(), netip.AddrFrom16(*(*[16]byte)(b[8:24])))
		f.eq("Dst", p.Dst(), netip.AddrFrom16(*(*[16]byte)(b[24:40])))
		f.eq("Payload", []byte(p.Payload()), b[40:])
		f.eq("HeaderLen", p.HeaderLen(), 40)
	},
	"UDP": func(f *fieldCheck, b []byte) {
		p := packet.UDP(b)
		if p.IsValid() != nil {
			return
		}
		f.eq("SrcPort", p.SrcPort(), u16(b[0:]))
		f.eq("DstPort", p.DstPort(), u16(b[2:]))
		f.eq("Len", p.Len(), u16(b[4:]))
		f.eq("Checksum", p.Checksum(), u16(b[6:]))
		f.eq("Payload", []byte(p.Payload()), b[8:])
		f.eq("HeaderLen", p.HeaderLen(), 8)
	},
	"TCP": func(f *fieldCheck, b []byte) {
		p := packet.TCP(b)
		if p.IsValid() != nil {
			return
		}
		doff := int(b[12]>>4) * 4
		f.eq("SrcPort", p.SrcPort(), u16(b[0:]))
		f.eq("DstPort", p.DstPort(), u16(b[2:]))
		f.eq("Seq", p.Seq(), u32(b[4:]))
		f.eq("Ack", p.Ack(), u32(b[8:]))
		f.eq("HeaderLen", p.HeaderLen(), doff)
		f.eq("NS", p.NS(), b[12]&1 != 0)
		f.eq("FIN", p.FIN(), b[13]&0x01 != 0)
		f.eq("SYN", p.SYN(), b[13]&0x02 != 0)
		f.eq("RST", p.RST(), b[13]&0x04 != 0)
		f.eq("PSH", p.PSH(), b[13]&0x08 != 0)
		f.eq("ACK", p.ACK(), b[13]&0x10 != 0)
		f.eq("URG", p.URG(), b[13]&0x20 != 0)
		f.eq("ECE", p.ECE(), b[13]&0x40 != 0)
		f.eq("CWR", p.CWR(), b[13]&0x80 != 0)
		f.eq("Window", p.Window(), u16(b[14:]))
		f.eq("Checksum", p.Checksum(), u16(b[16:]))
		f.eq("Urgent", p.Urgent(), u16(b[18:]))
		f.eq("Payload", []byte(p.Payload()), b[doff:])
	},
	"ARP": func(f *fieldCheck, b []byte) {
		p := packet.ARP(b)
		if len(b) < 28 {
			return
		}
		f.eq("HType", p.HType(), u16(b[0:]))
		f.eq("Proto", p.Proto(), u16(b[2:]))
		f.eq("HLen", p.HLen(), b[4])
		f.eq("PLen", p.PLen(), b[5])
		f.eq("Operation", p.Operation(), u16(b[6:]))
		f.eq("SrcMAC", []byte(p.SrcMAC()), b[8:14])
		f.eq("SrcIP", p.SrcIP(), netip.AddrFrom4(*(*[4]byte)(b[14:18])))
		f.eq("DstMAC", []byte(p.DstMAC()), b[18:24])
		f.eq("DstIP", p.DstIP(), netip.AddrFrom4(*(*[4]byte)(b[24:28])))
		wantValid := u16(b[0:]) == 1 && u16(b[2:]) == 0x0800 && b[4] == 6 && b[5] == 4
		f.eq("IsValid", p.IsValid() == nil, wantValid)
	},
	"ICMP": func(f *fieldCheck, b []byte) {
		p := packet.ICMP(b)
		if p.IsValid() != nil {
			return
		}
		f.eq("Type", p.Type(), b[0])
		f.eq("Code", p.Code(), b[1])
		f.eq("Checksum", p.Checksum(), u16(b[2:]))
		f.eq("RestOfHeader", p.RestOfHeader(), b[4:8])
		f.eq("Payload", p.Payload(), b[8:])
		e := packet.ICMPEcho(b)
		f.eq("Echo.Type", e.Type(), b[0])
		f.eq("Echo.Code", e.Code(), b[1])
		f.eq("Echo.Checksum", e.Checksum(), u16(b[2:]))
		f.eq("EchoID", e.EchoID(), u16(b[4:]))
		f.eq("EchoSeq", e.EchoSeq(), u16(b[6:]))
		f.eq("EchoData", e.EchoData(), b[8:])
	},
	"DHCP4": func(f *fieldCheck, b []byte) {
		p := packet.DHCP4(b)
		if len(b) < 240 {
			return
		}
		f.eq("OpCode", byte(p.OpCode()), b[0])
		f.eq("HType", p.HType(), b[1])
		f.eq("HLen", p.HLen(), b[2])
		f.eq("Hops", p.Hops(), b[3])
		f.eq("XId", p.XId(), b[4:8])
		f.eq("Secs", p.Secs(), u16(b[8:]))
		f.eq("Flags", p.Flags(), u16(b[10:]))
		f.eq("Broadcast", p.Broadcast(), b[10]&0x80 != 0)
		f.eq("CIAddr", p.CIAddr(), netip.AddrFrom4(*(*[4]byte)(b[12:16])))
		f.eq("YIAddr", p.YIAddr(), netip.AddrFrom4(*(*[4]byte)(b[16:20])))
		f.eq("SIAddr", p.SIAddr(), netip.AddrFrom4(*(*[4]byte)(b[20:24])))
		f.eq("GIAddr", p.GIAddr(), netip.AddrFrom4(*(*[4]byte)(b[24:28])))
		f.eq("CHAddr", []byte(p.CHAddr()), b[28:34])
		nul := func(x []byte) []byte {
			if i := bytes.IndexByte(x, 0); i >= 0 {
				return x[:i]
			}
			return x
		}
		f.eq("SName", p.SName(), nul(b[44:108]))
		f.eq("File", p.File(), nul(b[108:236]))
		f.eq("Cookie", p.Cookie(), b[236:240])
		f.eq("Options", p.Options(), b[240:])
		if p.IsValid() == nil {
			want, ok := ref.DHCPOptions(b[240:])
			got := p.ParseOptions()
			if ok {
				f.eq("ParseOptions.len", len(got), len(want))
				for k, v := range want {
					f.eq(fmt.Sprintf("ParseOptions[%d]", k), got[packet.DHCP4OptionCode(k)], v)
				}
			}
		}
	},
	"DNS": func(f *fieldCheck, b []byte) {
		p := packet.DNS(b)
		if p.IsValid() != nil {
			return
		}
		f.eq("TransactionID", p.TransactionID(), u16(b[0:]))
		f.eq("QR", p.QR(), b[2]&0x80 != 0)
		f.eq("OpCode", p.OpCode(), int(b[2]>>3)&0x0f)
		f.eq("AA", p.AA(), b[2]&0x04 != 0)
		f.eq("TC", p.TC(), b[2]&0x02 != 0)
		f.eq("RD", p.RD(), b[2]&0x01 != 0)
		f.eq("RA", p.RA(), b[3]&0x80 != 0)
		f.eq("Z", p.Z(), (b[3]>>4)&0x07)
		f.eq("ResponseCode", p.ResponseCode(), int(b[3]&0x0f))
		f.eq("QDCount", p.QDCount(), u16(b[4:]))
		f.eq("ANCount", p.ANCount(), u16(b[6:]))
		f.eq("NSCount", p.NSCount(), u16(b[8:]))
		f.eq("ARCount", p.ARCount(), u16(b[10:]))
	},
	"ICMP6RouterAdvertisement": func(f *fieldCheck, b []byte) {
		p := packet.ICMP6RouterAdvertisement(b)
		if p.IsValid() != nil {
			return
		}
		f.eq("Type", p.Type(), b[0])
		f.eq("Code", p.Code(), b[1])
		f.eq("Checksum", p.Checksum(), int(u16(b[2:])))
		f.eq("CurrentHopLimit", p.CurrentHopLimit(), b[4])
		f.eq("ManagedConfiguration", p.ManagedConfiguration(), b[5]&0x80 != 0)
		f.eq("OtherConfiguration", p.OtherConfiguration(), b[5]&0x40 != 0)
		f.eq("HomeAgent", p.HomeAgent(), b[5]&0x20 != 0)
		f.eq("Preference", p.Preference(), (b[5]>>3)&3)
		f.eq("ProxyFlag", p.ProxyFlag(), b[5]&0x04 != 0)
		f.eq("Flags", p.Flags(), b[5])
		f.eq("Lifetime", p.Lifetime(), u16(b[6:]))
		f.eq("ReachableTime", p.ReachableTime(), u32(b[8:]))
		f.eq("RetransmitTimer", p.RetransmitTimer(), u32(b[12:]))
	},
	"ICMP6NeighborAdvertisement": func(f *fieldCheck, b []byte) {
		p := packet.ICMP6NeighborAdvertisement(b)
		if p.IsValid() != nil {
			return
		}
		f.eq("Type", p.Type(), b[0])
		f.eq("Code", p.Code(), b[1])
		f.eq("Checksum", p.Checksum(), int(u16(b[2:])))
		f.eq("Router", p.Router(), b[4]&0x80 != 0)
		f.eq("Solicited", p.Solicited(), b[4]&0x40 != 0)
		f.eq("Override", p.Override(), b[4]&0x20 != 0)
		f.eq("TargetAddress", p.TargetAddress(), netip.AddrFrom16(*(*[16]byte)(b[8:24])))
		var lla []byte
		if len(b) >= 32 && b[24] == 2 && b[25] == 1 {
			lla = b[26:32]
		}
		f.eq("TargetLLA", []byte(p.TargetLLA()), lla)
	},
	"ICMP6NeighborSolicitation": func(f *fieldCheck, b []byte) {
		p := packet.ICMP6NeighborSolicitation(b)
		if p.IsValid() != nil {
			return
		}
		f.eq("Type", p.Type(), b[0])
		f.eq("Code", p.Code(), b[1])
		f.eq("Checksum", p.Checksum(), int(u16(b[2:])))
		f.eq("TargetAddress", p.TargetAddress(), netip.AddrFrom16(*(*[16]byte)(b[8:24])))
		var lla []byte
		if len(b) >= 32 && b[24] == 1 && b[25] == 1 {
			lla = b[26:32]
		}
		f.eq("SourceLLA", []byte(p.SourceLLA()), lla)
	},
	"ICMP6Redirect": func(f *fieldCheck, b []byte) {
		p := packet.ICMP6Redirect(b)
		if p.IsValid() != nil {
			return
		}
		f.eq("Type", p.Type(), b[0])
		f.eq("Code", p.Code(), b[1])
		f.eq("Checksum", p.Checksum(), int(u16(b[2:])))
		f.eq("TargetAddress", []byte(p.TargetAddress()), b[8:24])
		f.eq("DstAddress", []byte(p.DstAddress()), b[24:40])
		var lla []byte
		if len(b) >= 48 && b[40] == 2 && b[41] == 1 {
			lla = b[42:48]
		}
		f.eq("TargetLinkLayerAddr", []byte(p.TargetLinkLayerAddr()), lla)
	},
	"LLC": func(f *fieldCheck, b []byte) {
		p := packet.LLC(b)
		if p.IsValid() != nil {
			return
		}
		f.eq("DSAP", p.DSAP(), b[0])
		f.eq("SSAP", p.SSAP(), b[1])
		f.eq("Control", p.Control(), b[2])
		// IEEE 802.2: U format (control low bits 11) has a one-byte control field, I and S formats two bytes.
		hdr := 4
		if b[2]&3 == 3 || len(b) < 4 {
			hdr = 3
		}
		f.eq("Payload", p.Payload(), b[hdr:])
	},
	"SNAP": func(f *fieldCheck, b []byte) {
		p := packet.SNAP(b)
		if p.IsValid() != nil {
			return
		}
		f.eq("DSAP", p.DSAP(), b[0])
		f.eq("SSAP", p.SSAP(), b[1])
		f.eq("Control", p.Control(), b[2])
		f.eq("OrganisationID", p.OrganisationID(), b[3:6])
		f.eq("EtherType", p.EtherType(), u16(b[6:]))
		f.eq("Payload", p.Payload(), b[8:])
	},
	"RRCP": func(f *fieldCheck, b []byte) {
		p := packet.RRCP(b)
		if p.IsValid() != nil {
			return
		}
		f.eq("Protocol", p.Protocol(), b[0])
		f.eq("Reply", p.Reply(), b[1]&0x80 != 0)
		f.eq("OpCode", p.OpCode(), b[1]&0x7f)
		f.eq("AuthKey", p.AuthKey(), u16(b[2:]))
		f.eq("RegisterAddr", p.RegisterAddr(), u16(b[4:]))
		f.eq("RegisterData", p.RegisterData(), u16(b[6:]))
		f.eq("SixBytes", p.SixBytes(), b[1:7])
		f.eq("Zeros", p.Zeros(), b[7:])
	},
	"IEEE1905": func(f *fieldCheck, b []byte) {
		p := packet.IEEE1905(b)
		if p.IsValid() != nil {
			return
		}
		f.eq("Version", p.Version(), b[0])
		f.eq("Reserved", p.Reserved(), b[1])
		f.eq("Type", p.Type(), u16(b[2:]))
		f.eq("ID", p.ID(), u16(b[4:]))
		f.eq("FragmentID", p.FragmentID(), b[6])
		f.eq("Flags", p.Flags(), b[7])
		f.eq("TLV", p.TLV(), b[8:])
	},
	"EthernetPause": func(f *fieldCheck, b []byte) {
		p := packet.EthernetPause(b)
		if p.IsValid() != nil {
			return
		}
		f.eq("Opcode", p.Opcode(), u16(b[0:]))
		f.eq("Duration", p.Duration(), u16(b[2:]))
		f.eq("Reserved", p.Reserved(), b[4:])
	},
	"HopByHopExtensionHeader": func(f *fieldCheck, b []byte) {
		p := packet.HopByHopExtensionHeader(b)
		if !p.IsValid() {
			return
		}
		f.eq("NextHeader", p.NextHeader(), b[0])
		f.eq("Len", p.Len(), int(b[1])*8+8)
		f.eq("Data", p.Data(), b[2:int(b[1])*8+8])
	},
	"LLDP": func(f *fieldCheck, b []byte) {
		p := packet.LLDP(b)
		if p.IsValid() != nil {
			return
		}
		tlvs, complete := ref.LLDPTLVs(b)
		if !complete || len(tlvs) < 2 {
			return // the reference only speaks about well-formed LLDPDUs
		}
		f.eq("ChassisID", p.ChassisID(), tlvs[0].Value)
		f.eq("PortID", p.PortID(), tlvs[1].Value)
		seen := map[int]bool{}
		for _, tv := range tlvs {
			if seen[tv.Type] || tv.Type == 0 {
				continue
			}
			seen[tv.Type] = true
			f.eq(fmt.Sprintf("GetPDU(%d)", tv.Type), p.GetPDU(tv.Type), tv.Value)
		}
	},
}

func TestC02(t *testing.T) {
	rec := drv.For("C02", c02Rule)
	w := gen.DefaultWorld()

	drv.Prop(t, rec, "classify", 60000, 1200000, func(t *rapid.T) c02Case {
		f := w.Frame(nil).Draw(t, "frame")
		b, lab := singleDefect(t, f.Bytes)
		rec.Class("gen " + f.Class + " " + lab)
		return c02Case{Data: b}
	}, func(tb drv.TB, c c02Case) { c02Classify(tb, rec, "classify", c.Data) })

	// the UDP port table: every ordered pair of table ports (precedence overlaps) on IPv4 and IPv6
	ports := gen.InterestingPorts
	drv.Enum(t, rec, "port-table", len(ports)*len(ports)*2, func(i int) c02Case {
		sp, dp := ports[i%len(ports)], ports[(i/len(ports))%len(ports)]
		v6 := i/(len(ports)*len(ports)) == 1
		pl := []byte{1, 2, 3, 4, 5, 6, 7, 8, 9}
		udp := ref.UDP(sp, dp, -1, 0, pl)
		c1 := w.Clients[0]
		if v6 {
			return c02Case{Data: ref.Eth(w.RouterMAC, c1, 0x86dd, ref.IP6(ref.IP6Hdr{PayloadLen: -1, Next: 17, HopLimit: 64, Src: netip.MustParseAddr("fe80::1").As16(), Dst: netip.MustParseAddr("ff02::fb").As16()}, udp))}
		}
		return c02Case{Data: ref.Eth(w.RouterMAC, c1, 0x0800, ref.IP4(ref.IP4Hdr{TotalLen: -1, TTL: 64, Proto: 17, Checksum: -1, Src: [4]byte{192, 168, 0, 5}, Dst: [4]byte{192, 168, 0, 255}}, udp))}
	}, func(tb drv.TB, c c02Case) { c02Classify(tb, rec, "port-table", c.Data) })

	// every EtherType value once per payload shape: an IPv4 datagram, an 802.1Q tag in front of one (what a second tag looks
	// like), an IPv6 datagram with a hop-by-hop header, four opaque bytes. Types the table does not name must come back as
	// plain Ethernet with the payload at offset 14 whatever follows.
	{
		c1 := w.Clients[0]
		udp := ref.UDP(40000, 53, -1, 0, []byte{1, 2, 3, 4, 5, 6, 7, 8, 9, 10, 11, 12})
		ip4 := ref.IP4(ref.IP4Hdr{TotalLen: -1, TTL: 64, Proto: 17, Checksum: -1, Src: [4]byte{192, 168, 0, 5}, Dst: [4]byte{192, 168, 0, 255}}, udp)
		ip6 := ref.IP6(ref.IP6Hdr{PayloadLen: -1, Next: 0, HopLimit: 1, Src: netip.MustParseAddr("fe80::1").As16(), Dst: netip.MustParseAddr("ff02::16").As16()}, append([]byte{58, 0, 5, 2, 0, 0, 1, 0}, ref.ICMP6(netip.MustParseAddr("fe80::1").As16(), netip.MustParseAddr("ff02::16").As16(), 143, 0, make([]byte, 20))...))
		shapes := [][]byte{ip4, append([]byte{0x81, 0x00, 0x00, 0x05}, ip4...), ip6, {0x81, 0x00, 0x00, 0x01},
			append([]byte{0x00, 0x05, 0x81, 0x00, 0x00, 0x06, 0x08, 0x00}, ip4...)} // the last: a tag control word, then an inner 802.1Q tag (double tagging)
		drv.Enum(t, rec, "ethertype-all", 65536*len(shapes), func(i int) c02Case {
			return c02Case{Data: ref.Eth(w.RouterMAC, c1, uint16(i%65536), shapes[i/65536])}
		}, func(tb drv.TB, c c02Case) { c02Classify(tb, rec, "ethertype-all", c.Data) })
	}

	drv.Prop(t, rec, "mutated", 20000, 400000, func(t *rapid.T) c02Case {
		f := w.Frame(nil).Draw(t, "frame")
		b, _ := gen.Mutate(t, f.Bytes)
		return c02Case{Data: b}
	}, func(tb drv.TB, c c02Case) { c02Classify(tb, rec, "mutated", c.Data) })

	names := make([]string, 0, len(c02ViewChecks))
	for _, v := range c01Views {
		if _, ok := c02ViewChecks[v.name]; ok {
			names = append(names, v.name)
		}
	}
	drv.Prop(t, rec, "fields", 40000, 800000, func(t *rapid.T) c02Case {
		v := rapid.SampledFrom(names).Draw(t, "view")
		return c02Case{View: v, Data: c02FieldBytes(t, w, v)}
	}, func(tb drv.TB, c c02Case) {
		if chk, ok := c02ViewChecks[c.View]; ok {
			c02Fields(tb, rec, "fields", c, chk)
		}
	})
}

// c02FieldBytes draws field values and encodes them with the ref builders
// (well-formed encodings; malformed ones are C01's subject).
func c02FieldBytes(t *rapid.T, w gen.World, view string) []byte {
	switch view {
	case "IP4":
		ihl := rapid.SampledFrom([]int{20, 24, 40, 60}).Draw(t, "ihl")
		pl := gen.Bytes(t, gen.PayloadLen(t, 200), "pl")
		h := ref.IP4Hdr{IHL: ihl, TOS: rapid.Byte().Draw(t, "tos"), TotalLen: -1, ID: rapid.Uint16().Draw(t, "id"), Flags: byte(rapid.IntRange(0, 7).Draw(t, "fl")),
			FragOff: uint16(rapid.IntRange(0, 0x1fff).Draw(t, "frag")), TTL: rapid.Byte().Draw(t, "ttl"), Proto: rapid.Byte().Draw(t, "proto"), Checksum: int(rapid.Uint16().Draw(t, "sum")),
			Src: w.IP4().Draw(t, "src"), Dst: w.IP4().Draw(t, "dst"), Options: gen.Bytes(t, ihl-20, "opts")}
		b := ref.IP4(h, pl)
		return append(b, gen.Bytes(t, rapid.SampledFrom([]int{0, 0, 6, 18}).Draw(t, "trail"), "trail")...) // Ethernet padding after TotalLen
	case "IP6":
		h := ref.IP6Hdr{Class: rapid.Byte().Draw(t, "class"), Flow: rapid.Uint32().Draw(t, "flow") & 0xfffff, PayloadLen: -1, Next: rapid.Byte().Draw(t, "next"), HopLimit: rapid.Byte().Draw(t, "hop"), Src: w.IP6().Draw(t, "src"), Dst: w.IP6().Draw(t, "dst")}
		return ref.IP6(h, gen.Bytes(t, gen.PayloadLen(t, 200), "pl"))
	case "UDP":
		return ref.UDP(gen.Port().Draw(t, "sp"), gen.Port().Draw(t, "dp"), -1, rapid.Uint16().Draw(t, "sum"), gen.Bytes(t, gen.PayloadLen(t, 200), "pl"))
	case "TCP":
		h := ref.TCPHdr{Sport: gen.Port().Draw(t, "sp"), Dport: gen.Port().Draw(t, "dp"), Seq: rapid.Uint32().Draw(t, "seq"), Ack: rapid.Uint32().Draw(t, "ack"), DataOff: rapid.IntRange(5, 15).Draw(t, "doff"),
			NS: rapid.Bool().Draw(t, "ns"), Flags: rapid.Byte().Draw(t, "flags"), Window: rapid.Uint16().Draw(t, "win"), Checksum: rapid.Uint16().Draw(t, "sum"), Urgent: rapid.Uint16().Draw(t, "urg")}
		h.Options = gen.Bytes(t, h.DataOff*4-20, "opts")
		return ref.TCP(h, gen.Bytes(t, gen.PayloadLen(t, 200), "pl"))
	case "ARP":
		return ref.ARP(ref.ARPPkt{HType: rapid.SampledFrom([]uint16{1, 1, 1, 6, 0}).Draw(t, "ht"), PType: rapid.SampledFrom([]uint16{0x0800, 0x0800, 0x86dd}).Draw(t, "pt"),
			HLen: rapid.SampledFrom([]byte{6, 6, 6, 8}).Draw(t, "hl"), PLen: rapid.SampledFrom([]byte{4, 4, 4, 16}).Draw(t, "pln"), Op: rapid.Uint16().Draw(t, "op"),
			SHA: w.MAC().Draw(t, "sha"), SPA: w.IP4().Draw(t, "spa"), THA: w.MAC().Draw(t, "tha"), TPA: w.IP4().Draw(t, "tpa")})
	case "ICMP":
		var rest [4]byte
		copy(rest[:], gen.Bytes(t, 4, "rest"))
		return ref.ICMP(rapid.Byte().Draw(t, "type"), rapid.Byte().Draw(t, "code"), rest, gen.Bytes(t, gen.PayloadLen(t, 100), "pl"), rapid.Bool().Draw(t, "sum"))
	case "DHCP4":
		m := ref.DHCPMsg{Op: rapid.SampledFrom([]byte{1, 2}).Draw(t, "op"), HType: 1, HLen: 6, Hops: rapid.Byte().Draw(t, "hops"), Secs: rapid.Uint16().Draw(t, "secs"), Flags: rapid.SampledFrom([]uint16{0, 0x8000, 0x0001, 0xffff}).Draw(t, "flags"),
			CIAddr: w.IP4().Draw(t, "ci"), YIAddr: w.IP4().Draw(t, "yi"), SIAddr: w.IP4().Draw(t, "si"), GIAddr: w.IP4().Draw(t, "gi"), CHAddr: w.MAC().Draw(t, "ch")}
		copy(m.XID[:], gen.Bytes(t, 4, "xid"))
		m.SName = gen.Bytes(t, rapid.IntRange(0, 64).Draw(t, "snl"), "sname")
		m.File = gen.Bytes(t, rapid.IntRange(0, 128).Draw(t, "fl"), "file")
		n := rapid.IntRange(0, 8).Draw(t, "nopt")
		for i := 0; i < n; i++ {
			m.Options = append(m.Options, ref.DHCPOpt{Code: byte(rapid.IntRange(1, 254).Draw(t, "code")), Data: gen.Bytes(t, rapid.IntRange(0, 20).Draw(t, "ol"), "od")})
		}
		return m.Encode(rapid.Bool().Draw(t, "pad300"))
	case "DNS":
		return gen.Bytes(t, rapid.IntRange(12, 60).Draw(t, "dl"), "dns")
	case "ICMP6RouterAdvertisement":
		return append([]byte{134, 0}, gen.Bytes(t, 14, "ra")...)
	case "ICMP6NeighborAdvertisement", "ICMP6NeighborSolicitation", "ICMP6Redirect":
		base := map[string]int{"ICMP6NeighborAdvertisement": 24, "ICMP6NeighborSolicitation": 24, "ICMP6Redirect": 40}[view]
		b := gen.Bytes(t, base, "nd")
		switch rapid.IntRange(0, 3).Draw(t, "opt") {
		case 0:
			b = append(b, 1, 1)
			b = append(b, gen.Bytes(t, 6, "lla")...)
		case 1:
			b = append(b, 2, 1)
			b = append(b, gen.Bytes(t, 6, "lla")...)
		case 2:
			b = append(b, rapid.SampledFrom([]byte{1, 2, 3}).Draw(t, "ot"), rapid.SampledFrom([]byte{1, 2}).Draw(t, "ol"))
			b = append(b, gen.Bytes(t, 14, "obody")...)
		}
		return b
	case "LLC":
		b := gen.Bytes(t, rapid.IntRange(3, 20).Draw(t, "ll"), "llc")
		switch rapid.IntRange(0, 4).Draw(t, "kind") {
		case 0:
			b[0], b[1], b[2] = 0xaa, 0xaa, 0x03
		case 1:
			b[2] |= 3
		case 2:
			b[2] = b[2]&^3 | 1
		case 3:
			b[2] &^= 1
		}
		return b
	case "SNAP":
		return append([]byte{0xaa, 0xaa, 0x03}, gen.Bytes(t, rapid.IntRange(6, 30).Draw(t, "sl"), "snap")...)
	case "RRCP":
		return gen.Bytes(t, rapid.IntRange(16, 60).Draw(t, "rl"), "rrcp")
	case "IEEE1905":
		return gen.Bytes(t, rapid.IntRange(8, 60).Draw(t, "il"), "i1905")
	case "EthernetPause":
		b := gen.Bytes(t, rapid.IntRange(46, 60).Draw(t, "pl"), "pause")
		b[0], b[1] = 0, 1
		return b
	case "HopByHopExtensionHeader":
		// Hdr Ext Len is a full octet: headers of up to 2048 bytes are legal
		u := rapid.OneOf(rapid.IntRange(0, 3), rapid.SampledFrom([]int{30, 31, 32, 33, 63, 64, 127, 128, 254, 255})).Draw(t, "units")
		b := make([]byte, u*8+8+rapid.IntRange(2, 10).Draw(t, "more"))
		seed := rapid.Uint64().Draw(t, "hbhseed")
		for i := range b {
			b[i] = byte(drv.Mix(seed + uint64(i)))
		}
		b[1] = byte(u)
		return b
	case "LLDP":
		return gen.LLDPRaw(t, false)
	}
	return nil
}
