//go:build verif

package harness

import (
	"fmt"
	"net"
	"net/netip"
	"os"
	"runtime"
	"sort"
	"strings"
	"testing"
	"time"

	"github.com/irai/packet"
	"pgregory.net/rapid"
	"verifharness/drv"
	"verifharness/gen"
	"verifharness/ref"
)

// C10 — Retained state never aliases the caller's packet buffer.
//
// Differential oracle: the same packet history runs twice in fresh sessions and
// handlers. Run S delivers every packet in ONE shared EthMaxSize buffer that is
// overwritten with a poison pattern as soon as the step has returned; run P
// delivers every packet in a private buffer that is never touched again. After
// every step the semantic transcripts must be equal.

const c10Rule = "packet histories (host-tracking frames, DHCP handshakes with predictable addresses, RAs with option lists, DNS / mDNS / NBNS / SSDP name traffic, ARP towards hunted and non-hunted hosts, capture toggles, purges, lease ticks) executed twice: one shared receive buffer scribbled over after every step vs a private buffer per packet; compared after every step: drained notifications, emitted frames, host and MAC tables, DHCP leases, IPv6 router table, DNS table, name-handler results. non-trivial = a history in which at least one retention point was exercised (host created, lease created, router learned, DNS entry stored, name learned); distinct by hash of the history"

type c10Step struct {
	K     string  `json:"k"` // pkt purge capture release tick
	Data  drv.Hex `json:"data,omitempty"`
	Times int     `json:"times,omitempty"`
	MAC   int     `json:"mac,omitempty"`
	D     int     `json:"d,omitempty"`
}

type c10Case struct {
	Steps  []c10Step `json:"steps"`
	Poison byte      `json:"poison"`
	Hunt   bool      `json:"hunt"` // ARP-hunt client 0 from the start (its router look-ups are answered)
}

func c10Snapshot(e *c08Env) (hosts, macs, leases, routers, dnsTab string) {
	ne := func(n packet.NameEntry) string {
		return fmt.Sprintf("%s|%s|%s|%s|%s", n.Type, n.Name, n.Model, n.Manufacturer, n.OS)
	}
	var hs []string
	for ip, h := range e.s.HostTable.Table {
		hs = append(hs, fmt.Sprintf("%v mac=%x/%x online=%v stage=%v manuf=%q dhcp=%s mdns=%s ssdp=%s llmnr=%s nbns=%s", ip, []byte(h.Addr.MAC), []byte(h.MACEntry.MAC), h.Online, h.HuntStage, h.Manufacturer,
			ne(h.DHCP4Name), ne(h.MDNSName), ne(h.SSDPName), ne(h.LLMNRName), ne(h.NBNSName)))
	}
	sort.Strings(hs)
	var ms []string
	for _, m := range e.s.MACTable.Table {
		ms = append(ms, fmt.Sprintf("%x captured=%v ip4=%v offer=%v gua=%v lla=%v online=%v router=%v hosts=%d dhcp=%s mdns=%s ssdp=%s llmnr=%s nbns=%s", []byte(m.MAC), m.Captured, m.IP4, m.IP4Offer, m.IP6GUA, m.IP6LLA, m.Online, m.IsRouter, len(m.HostList),
			ne(m.DHCP4Name), ne(m.MDNSName), ne(m.SSDPName), ne(m.LLMNRName), ne(m.NBNSName)))
	}
	sort.Strings(ms)
	var ls []string
	for _, l := range e.dhcp.VerifLeases() {
		ls = append(ls, fmt.Sprintf("id=%x mac=%x ip=%v offer=%v state=%d xid=%x name=%q subnet=%s", l.ClientID, l.MAC, l.IP, l.Offer, l.State, l.XID, l.Name, l.Subnet))
	}
	var rs []string
	e.icmp6.Lock()
	for ip, r := range e.icmp6.LANRouters {
		rs = append(rs, fmt.Sprintf("%v mac=%x m=%v o=%v pref=%d hop=%d life=%v reach=%d retrans=%d prefixes=%v opts=%+v", ip, []byte(r.Addr.MAC), r.ManagedFlag, r.OtherCondigFlag, r.Preference, r.CurHopLimit, r.DefaultLifetime, r.ReacheableTime, r.RetransTimer, r.Prefixes, r.Options))
	}
	e.icmp6.Unlock()
	sort.Strings(rs)
	ds := append([]string{}, e.dns.VerifMDNSCache()...)
	for i := range ds {
		ds[i] = "mdns-cache " + ds[i]
	}
	for name, ent := range e.dns.DNSTable {
		var parts []string
		for k, v := range ent.IP4Records {
			parts = append(parts, fmt.Sprintf("A %v %+v", k, v))
		}
		for k, v := range ent.IP6Records {
			parts = append(parts, fmt.Sprintf("AAAA %v %+v", k, v))
		}
		for k, v := range ent.CNameRecords {
			parts = append(parts, fmt.Sprintf("CNAME %q %+v", k, v))
		}
		for k, v := range ent.PTRRecords {
			parts = append(parts, fmt.Sprintf("PTR %q %+v", k, v))
		}
		sort.Strings(parts)
		ds = append(ds, fmt.Sprintf("%q/%q: %s", name, ent.Name, strings.Join(parts, "; ")))
	}
	sort.Strings(ds)
	return strings.Join(hs, "\n"), strings.Join(ms, "\n"), strings.Join(ls, "\n"), strings.Join(rs, "\n"), strings.Join(ds, "\n")
}

// c10Frames renders the frames a step emitted, dropping what is asynchronous or random by design.
func c10Frames(frames []sentFrame) (sync []string, async []string) {
	for _, f := range frames {
		d := ref.Decode(f.B)
		if d.PayloadID == ref.PARP && len(f.B) >= 42 && f.B[21] == 1 {
			continue // the hunt loop's periodic announcement (ARP request); the synchronous spoof replies are op 2
		}
		if (d.PayloadID == ref.PDHCP4 || (d.SrcPort == 67 && d.DstPort == 68)) && d.OffPayload+240 < len(f.B) {
			p := f.B[d.OffPayload:]
			if d.OffUDP > 0 && d.OffPayload == d.OffUDP {
				p = f.B[d.OffUDP+8:]
			}
			if p[28] == 0xff && p[29] == 0xee && p[30] == 0xdd && p[31] == 0xcc { // attack DISCOVERs: once per 20 s per process
				continue
			}
			// DHCP messages are compared decoded: the encoder emits the non-requested options in map order
			if m, err := ref.DecodeDHCP(p); err == nil {
				sort.Slice(m.Options, func(i, j int) bool { return m.Options[i].Code < m.Options[j].Code })
				if d.SrcPort == 68 { // forced DECLINE / RELEASE are sent from goroutines, a RELEASE has a random xid
					if m.MsgType() == 7 {
						m.XID = [4]byte{}
					}
					async = append(async, fmt.Sprintf("client-side type=%d xid=%x chaddr=%x ci=%v opts=%v", m.MsgType(), m.XID, m.CHAddr, m.CIAddr, m.Options))
					continue
				}
				sync = append(sync, fmt.Sprintf("dhcp-reply to %x/%v type=%d xid=%x chaddr=%x ci=%v yi=%v flags=%x opts=%v len=%d", f.B[0:6], d.DstIP, m.MsgType(), m.XID, m.CHAddr, m.CIAddr, m.YIAddr, m.Flags, m.Options, len(p)))
				continue
			}
		}
		if d.PayloadID == ref.PICMP6 && d.OffPayload < len(f.B) && (f.B[d.OffPayload] == 135 || f.B[d.OffPayload] == 128) {
			// purge probes (NS / echo request): sent by a goroutine that walks a list built from a map and stops
			// after the first link-local address, so which addresses get probed is not a function of the history
			continue
		}
		sync = append(sync, fmt.Sprintf("%x", f.B))
	}
	return
}

type c10Transcript struct {
	steps    []string
	async    []string
	retained bool
	joined   bool
	raw      []string // development aid (VERIF_C10_DUMP)
}

// waitNoGoroutine polls until no goroutine has one of the functions on its stack.
var stackBuf = make([]byte, 4<<20)

func waitNoGoroutine(max time.Duration, fns ...string) bool {
	buf := stackBuf
	deadline := time.Now().Add(max)
	for {
		st := string(buf[:runtime.Stack(buf, true)])
		busy := false
		for _, f := range fns {
			if strings.Contains(st, f) {
				busy = true
			}
		}
		if !busy {
			return true
		}
		if time.Now().After(deadline) {
			return false
		}
		time.Sleep(200 * time.Microsecond)
	}
}

func c10Execute(c c10Case, shared bool) (tr c10Transcript, p interface{}, sig, st string) {
	e := newC08Env()
	defer e.close()
	w := gen.DefaultWorld()
	if c.Hunt {
		e.arp.StartHunt(packet.Addr{MAC: hw(w.Clients[0]), IP: netip.MustParseAddr("192.168.0.2")})
	}
	sharedBuf := make([]byte, packet.EthMaxSize)
	vnow := time.Now()
	for _, stp := range c.Steps {
		var result string
		switch stp.K {
		case "pkt":
			times := stp.Times
			if times <= 0 {
				times = 1
			}
			for k := 0; k < times; k++ {
				var buf []byte
				if shared {
					buf = sharedBuf
				} else {
					buf = make([]byte, packet.EthMaxSize)
				}
				n := copy(buf, stp.Data)
				var late func() string
				p, sig, st = drv.Catch(func() {
					var r string
					r, late = c10Dispatch(e, buf[:n])
					result += r
				})
				if p != nil {
					return
				}
				if shared { // scribble over the whole receive buffer as the next ReadFrom would
					for i := range sharedBuf {
						sharedBuf[i] = c.Poison ^ byte(i*7)
					}
				}
				if late != nil { // what the handler handed to its caller must not have changed with the buffer
					result += late() + ";"
				}
			}
		case "purge":
			vnow = vnow.Add([]time.Duration{6 * time.Minute, 62 * time.Minute, 30 * time.Second}[stp.D%3])
			e.s.VerifPurge(vnow)
			time.Sleep(300 * time.Microsecond)
		case "capture":
			e.s.Capture(hw(w.Clients[stp.MAC%len(w.Clients)]))
		case "release":
			e.s.Release(hw(w.Clients[stp.MAC%len(w.Clients)]))
		case "tick":
			e.dhcp.MinuteTicker(time.Now().Add([]time.Duration{time.Minute, 5 * time.Hour}[stp.D%2]))
		}
		var notes []string
		for {
			select {
			case n := <-e.s.C:
				notes = append(notes, fmt.Sprintf("%x/%v online=%v manuf=%q dhcp=%q mdns=%q/%q ssdp=%q/%q llmnr=%q nbns=%q router=%v", []byte(n.Addr.MAC), n.Addr.IP, n.Online, n.Manufacturer, n.DHCP4Name.Name, n.MDNSName.Name, n.MDNSName.Model, n.SSDPName.Name, n.SSDPName.OS, n.LLMNRName.Name, n.NBNSName.Name, n.IsRouter))
				continue
			default:
			}
			break
		}
		if stp.K == "purge" { // purge walks a map: the order of its offline notifications is not defined
			sort.Strings(notes)
		}
		taken := e.conn.Take()
		if os.Getenv("VERIF_C10_DUMP") != "" {
			for _, f := range taken {
				tr.raw = append(tr.raw, fmt.Sprintf("step %d: %x", len(tr.steps), f.B[:min(len(f.B), 60)]))
			}
		}
		syncF, asyncF := c10Frames(taken)
		tr.async = append(tr.async, asyncF...)
		hosts, macs, leases, routers, dnsTab := c10Snapshot(e)
		if len(e.s.HostTable.Table) > 2 || leases != "" || routers != "" || dnsTab != "" {
			tr.retained = true
		}
		tr.steps = append(tr.steps, strings.Join([]string{"result: " + result, "notifications: " + strings.Join(notes, " ; "), "frames: " + strings.Join(syncF, " "), "hosts:\n" + hosts, "macs:\n" + macs, "leases:\n" + leases, "routers:\n" + routers, "dns:\n" + dnsTab}, "\n--\n"))
	}
	// asynchronous senders (forced DECLINE / RELEASE): join them, then compare what they sent as a multiset
	// (matched by source directory, not by function name: `go h.forceDecline(...)` runs through a compiler-made wrapper, and a
	// goroutine that has not started yet shows only that wrapper and the place it was created at)
	tr.joined = waitNoGoroutine(300*time.Millisecond, "/handlers/dhcp4_spoofer/")
	taken := e.conn.Take()
	if os.Getenv("VERIF_C10_DUMP") != "" {
		for _, f := range taken {
			tr.raw = append(tr.raw, fmt.Sprintf("final: %x", f.B[:min(len(f.B), 60)]))
		}
		tr.raw = append(tr.raw, fmt.Sprintf("joined=%v", tr.joined))
	}
	_, asyncF := c10Frames(taken)
	tr.async = append(tr.async, asyncF...)
	sort.Strings(tr.async)
	return
}

// c10Dispatch is the packet loop body; it returns what the name handlers reported.
// late renders what the handler returned to its caller; it is called after the buffer has been overwritten.
func c10Dispatch(e *c08Env, b []byte) (string, func() string) {
	frame, perr := e.s.Parse(b)
	if perr != nil {
		return "parse-error;", nil
	}
	out := ""
	var late func() string
	switch frame.PayloadID {
	case packet.PayloadARP:
		out = fmt.Sprint("arp:", e.arp.ProcessPacket(frame))
	case packet.PayloadDHCP4:
		out = fmt.Sprint("dhcp:", e.dhcp.ProcessPacket(frame))
	case packet.PayloadICMP4:
		out = fmt.Sprint("icmp4:", e.icmp4.ProcessPacket(frame))
	case packet.PayloadICMP6:
		out = fmt.Sprint("icmp6:", e.icmp6.ProcessPacket(frame) != nil)
	case packet.PayloadDNS:
		ent, err := e.dns.ProcessDNS(frame)
		out = fmt.Sprintf("dns:%v name=%q a=%d", err != nil, ent.Name, len(ent.IP4Records))
	case packet.PayloadMDNS, packet.PayloadLLMNR:
		ip4, ip6, err := e.dns.ProcessMDNS(frame)
		out = fmt.Sprintf("mdns:%v", err != nil)
		all := append(append([]packet.IPNameEntry{}, ip4...), ip6...)
		for _, v := range all {
			if frame.Host != nil {
				frame.Host.UpdateMDNSName(v.NameEntry)
			}
		}
		late = func() (s string) {
			for _, v := range all {
				s += fmt.Sprintf(" [%x %v %q %q]", []byte(v.Addr.MAC), v.Addr.IP, v.NameEntry.Name, v.NameEntry.Model)
			}
			return
		}
	case packet.PayloadNBNS:
		n, err := e.dns.ProcessNBNS(frame.Host, frame.Ether(), frame.Payload())
		out = fmt.Sprintf("nbns:%v %q", err != nil, n.Name)
		if frame.Host != nil && n.Name != "" {
			frame.Host.UpdateNBNSName(n)
		}
	case packet.PayloadSSDP:
		n, loc, err := e.dns.ProcessSSDP(frame.Host, frame.Ether(), frame.Payload())
		out = fmt.Sprintf("ssdp:%v %q %q %q", err != nil, n.Model, n.OS, loc)
		if frame.Host != nil {
			n.Expire = time.Time{}
			frame.Host.UpdateSSDPName(n)
		}
	}
	e.s.Notify(frame)
	return out + ";", late
}

func c10Run(tb drv.TB, rec *drv.Rec, sub string, c c10Case) {
	rec.Eval()
	drv.Begin("C10", sub, 'J', mustJSON(c), 60*time.Second)
	defer drv.End()
	trS, p, sig, st := c10Execute(c, true)
	if p != nil {
		rec.Violation(tb, sub, "c10-shared-"+sig, c, "the shared-buffer run panicked: %v\n%s", p, st)
		return
	}
	trP, p, sig, st := c10Execute(c, false)
	if p != nil {
		rec.Violation(tb, sub, "c10-private-"+sig, c, "the private-buffer run panicked: %v\n%s", p, st)
		return
	}
	for i := range trP.steps {
		if os.Getenv("VERIF_C10_DUMP") != "" {
			fmt.Fprintf(os.Stderr, "==== step %d shared:\n%s\n==== step %d private:\n%s\n", i, trS.steps[i], i, trP.steps[i])
		}
		if trS.steps[i] == trP.steps[i] {
			continue
		}
		// name the first section that differs
		sp, pp := strings.Split(trS.steps[i], "\n--\n"), strings.Split(trP.steps[i], "\n--\n")
		for k := range pp {
			if sp[k] != pp[k] {
				cat := strings.SplitN(pp[k], ":", 2)[0]
				ds, dp := firstDiffLine(sp[k], pp[k])
				rec.Violation(tb, sub, "c10-alias:"+cat, c, "step %d: %s differ between the shared-buffer and the private-buffer run\n shared : %s\n private: %s", i, cat, ds, dp)
				return
			}
		}
	}
	if !trS.joined || !trP.joined {
		rec.Class("inconclusive: asynchronous senders did not finish in time (async frames not compared)")
	} else if strings.Join(trS.async, "\n") != strings.Join(trP.async, "\n") {
		// frames from goroutines are subject to scheduling: only a difference that reproduces identically is reported
		same := 0
		for attempt := 0; attempt < 2; attempt++ {
			s2, p1, _, _ := c10Execute(c, true)
			p2, p3, _, _ := c10Execute(c, false)
			if p1 == nil && p3 == nil && s2.joined && p2.joined && strings.Join(s2.async, "\n") == strings.Join(trS.async, "\n") && strings.Join(p2.async, "\n") == strings.Join(trP.async, "\n") {
				same++
			}
		}
		if same == 2 {
			if os.Getenv("VERIF_C10_DUMP") != "" {
				fmt.Fprintf(os.Stderr, "RAW shared:\n%s\nRAW private:\n%s\n", strings.Join(trS.raw, "\n"), strings.Join(trP.raw, "\n"))
			}
			rec.Violation(tb, sub, "c10-alias:async-frames", c, "asynchronously sent frames differ (reproduced 3 times):\n shared : %v\n private: %v", trS.async, trP.async)
			return
		}
		rec.Class("async frame difference not reproducible (scheduling): ignored")
	}
	if trP.retained {
		rec.NonTrivial(drv.HashJSON(c), func() interface{} { return map[string]interface{}{"steps": len(c.Steps), "first": c.Steps[0]} })
	}
}

func firstDiffLine(a, b string) (string, string) {
	la, lb := strings.Split(a, "\n"), strings.Split(b, "\n")
	for i := 0; i < len(la) || i < len(lb); i++ {
		x, y := "", ""
		if i < len(la) {
			x = la[i]
		}
		if i < len(lb) {
			y = lb[i]
		}
		if x != y {
			return clip(x, 400), clip(y, 400)
		}
	}
	return "", ""
}

func clip(s string, n int) string {
	if len(s) > n {
		return s[:n] + "…"
	}
	return s
}

// c10GenStep draws one history step: mostly packets that reach a retention point.
func c10GenStep(t *rapid.T, w gen.World) []c10Step {
	cl := rapid.IntRange(0, 3).Draw(t, "client")
	mac := w.Clients[cl]
	ip4 := [4]byte{192, 168, 0, byte(20 + cl)}
	lla := netip.MustParseAddr("fe80::100").As16()
	lla[15] = byte(cl + 1)
	udp4 := func(sp, dp uint16, src, dst [4]byte, pl []byte) []byte {
		return ref.Eth(ref.MAC{0xff, 0xff, 0xff, 0xff, 0xff, 0xff}, mac, 0x0800, ref.IP4(ref.IP4Hdr{TotalLen: -1, TTL: 64, Proto: 17, Checksum: -1, Src: src, Dst: dst}, ref.UDP(sp, dp, -1, 0, pl)))
	}
	dhcpMsg := func(mt byte, xid byte, req netip.Addr, srv bool, name string, cid []byte) []byte {
		m := ref.DHCPMsg{Op: 1, HType: 1, HLen: 6, CHAddr: mac, XID: [4]byte{0xaa, byte(cl), xid, 1}, Options: []ref.DHCPOpt{{Code: 53, Data: []byte{mt}}}}
		if req.IsValid() {
			m.Options = append(m.Options, ref.DHCPOpt{Code: 50, Data: req.AsSlice()})
		}
		if srv {
			m.Options = append(m.Options, ref.DHCPOpt{Code: 54, Data: w.HostIP.AsSlice()})
		}
		if name != "" {
			m.Options = append(m.Options, ref.DHCPOpt{Code: 12, Data: []byte(name)})
		}
		if cid != nil {
			m.Options = append(m.Options, ref.DHCPOpt{Code: 61, Data: cid})
		}
		m.Options = append(m.Options, ref.DHCPOpt{Code: 55, Data: []byte{1, 3, 6, 15}})
		return udp4(68, 67, [4]byte{}, [4]byte{255, 255, 255, 255}, m.Encode(true))
	}
	// name traffic also arrives from stations the session does not track (no host entry is attached to the frame)
	nameSrc := ip4
	switch rapid.IntRange(0, 4).Draw(t, "nameSrc") {
	case 0:
		nameSrc = [4]byte{169, 254, 7, byte(1 + cl)}
	case 1:
		nameSrc = [4]byte{10, 9, 9, byte(1 + cl)}
	}
	switch rapid.SampledFrom([]string{"host4", "host6", "arp", "dhcp", "dhcp", "ra", "dns", "mdns", "mdns", "nbns", "ssdp", "purge", "capture", "tick", "junk"}).Draw(t, "step") {
	case "host4":
		return []c10Step{{K: "pkt", Data: udp4(9999, 9999, ip4, [4]byte{192, 168, 0, 11}, []byte("x"))}}
	case "host6":
		return []c10Step{{K: "pkt", Data: ref.Eth(w.RouterMAC, mac, 0x86dd, ref.IP6(ref.IP6Hdr{PayloadLen: -1, Next: 59, HopLimit: 64, Src: lla, Dst: netip.MustParseAddr("ff02::1").As16()}, nil))}}
	case "arp":
		tpa := w.RouterIP.As4()
		if rapid.Bool().Draw(t, "probe") {
			return []c10Step{{K: "pkt", Data: ref.Eth(ref.MAC{0xff, 0xff, 0xff, 0xff, 0xff, 0xff}, mac, 0x0806, ref.ARP(ref.ARPPkt{HType: 1, PType: 0x0800, HLen: 6, PLen: 4, Op: 1, SHA: mac, TPA: [4]byte{192, 168, 0, byte(40 + cl)}}))}}
		}
		return []c10Step{{K: "pkt", Data: ref.Eth(ref.MAC{0xff, 0xff, 0xff, 0xff, 0xff, 0xff}, mac, 0x0806, ref.ARP(ref.ARPPkt{HType: 1, PType: 0x0800, HLen: 6, PLen: 4, Op: 1, SHA: mac, SPA: ip4, TPA: tpa}))}}
	case "dhcp":
		// DISCOVER asking for a predictable free address, then the matching REQUEST (both runs see the same input)
		want := netip.AddrFrom4([4]byte{192, 168, 0, byte(60 + cl + 4*rapid.IntRange(0, 2).Draw(t, "slot"))})
		name := rapid.SampledFrom([]string{"", "laptop", "phone-1"}).Draw(t, "hostname")
		var cid []byte
		switch rapid.IntRange(0, 3).Draw(t, "cid") {
		case 0:
			cid = append([]byte{1}, mac[:]...)
		case 1: // a client identifier that does not depend on the hardware address: the same identifier may
			// show up from another station (a dock, a cloned image, a randomised MAC)
			cid = []byte(rapid.SampledFrom([]string{"duid-A", "duid-B"}).Draw(t, "sharedCid"))
		}
		x := byte(rapid.IntRange(0, 3).Draw(t, "xid"))
		steps := []c10Step{{K: "pkt", Data: dhcpMsg(1, x, want, false, name, cid)}}
		switch rapid.IntRange(0, 3).Draw(t, "then") {
		case 0, 1:
			steps = append(steps, c10Step{K: "pkt", Data: dhcpMsg(3, x, want, true, name, cid)})
		case 2: // same request under another xid (must be refused: the stored xid decides)
			steps = append(steps, c10Step{K: "pkt", Data: dhcpMsg(3, x+9, want, true, name, cid)})
		}
		return steps
	case "ra":
		if rapid.Bool().Draw(t, "structuredRA") { // every option kind with its edge values (/128 and /0 prefixes, 16+ DNS servers, ...), from one of two routers
			return []c10Step{{K: "pkt", Times: 4, Data: genC14RA(t, rapid.IntRange(0, 1).Draw(t, "router")).frame(w)}}
		}
		src := lla
		dst := netip.MustParseAddr("ff02::1").As16()
		body := append([]byte{64, byte(rapid.SampledFrom([]int{0, 0x80, 0x40, 0xc8}).Draw(t, "flags")), 0x07, 0x08, 0, 0, 0x10, 0, 0, 0, 0x20, 0}, gen.NDPOptionsRaw(t, false)...)
		if rapid.Bool().Draw(t, "slla") {
			body = append(body, 1, 1)
			body = append(body, mac[:]...)
		}
		return []c10Step{{K: "pkt", Times: 4, Data: ref.Eth(ref.MAC{0x33, 0x33, 0, 0, 0, 1}, mac, 0x86dd, ref.IP6(ref.IP6Hdr{PayloadLen: -1, Next: 58, HopLimit: 255, Src: src, Dst: dst}, ref.ICMP6(src, dst, 134, 0, body)))}}
	case "dns":
		m := gen.DNSMsg(t, gen.DNSOptions{Response: true})
		b, _, _ := m.Encode(rapid.IntRange(0, 1).Draw(t, "compress"))
		if len(b) > 1200 {
			b = b[:1200]
		}
		return []c10Step{{K: "pkt", Data: udp4(53, 40000, nameSrc, w.HostIP.As4(), b)}}
	case "mdns":
		m := gen.DNSMsg(t, gen.DNSOptions{MDNS: true, Response: rapid.Bool().Draw(t, "resp")})
		b, _, _ := m.Encode(rapid.SampledFrom([]int{0, 2}).Draw(t, "compress"))
		if len(b) > 1200 {
			b = b[:1200]
		}
		// delivered once or twice: the second delivery is answered from the handler's cache of the first
		return []c10Step{{K: "pkt", Times: rapid.IntRange(1, 2).Draw(t, "mdnsTimes"), Data: udp4(5353, 5353, nameSrc, [4]byte{224, 0, 0, 251}, b)}}
	case "nbns":
		names := []gen.NBNSName{{Name: rapid.SampledFrom([]string{"DESKTOP-1", "NAS", "PRINTER"}).Draw(t, "nb"), Suffix: 0}, {Name: "WORKGROUP", Suffix: 0, Group: true}}
		return []c10Step{{K: "pkt", Data: udp4(137, 137, nameSrc, [4]byte{192, 168, 0, 255}, gen.NBNSNodeStatus(uint16(rapid.Uint16().Draw(t, "id")), "*", names, 2, 46))}}
	case "ssdp":
		return []c10Step{{K: "pkt", Data: udp4(50000, 1900, nameSrc, [4]byte{239, 255, 255, 250}, gen.SSDPPayload(t))}}
	case "purge":
		return []c10Step{{K: "purge", D: rapid.IntRange(0, 2).Draw(t, "d")}}
	case "capture":
		if rapid.Bool().Draw(t, "rel") {
			return []c10Step{{K: "release", MAC: cl}}
		}
		return []c10Step{{K: "capture", MAC: cl}}
	case "tick":
		return []c10Step{{K: "tick", D: rapid.IntRange(0, 1).Draw(t, "d")}}
	}
	b, times, _ := c08Frame(t, w)
	if len(b) > packet.EthMaxSize {
		b = b[:packet.EthMaxSize]
	}
	return []c10Step{{K: "pkt", Data: b, Times: times}}
}

func TestC10(t *testing.T) {
	rec := drv.For("C10", c10Rule)
	w := gen.DefaultWorld()
	drv.Prop(t, rec, "histories", 600, 50000, func(t *rapid.T) c10Case {
		c := c10Case{Poison: rapid.SampledFrom([]byte{0x00, 0xff, 0xa5, 0x5a}).Draw(t, "poison"), Hunt: rapid.Bool().Draw(t, "hunt")}
		for i := rapid.IntRange(2, 25).Draw(t, "nsteps"); i > 0; i-- {
			steps := c10GenStep(t, w)
			for k := range steps {
				// a datagram whose UDP length field announces more than was received (and, for half of them, whose
				// tail is cut off): what lies behind the frame in the receive buffer must not become part of it
				if d := ref.Decode(steps[k].Data); steps[k].K == "pkt" && d.OffUDP > 0 && d.OffIP4 > 0 && !d.Err && rapid.IntRange(0, 7).Draw(t, "overstateUDP") == 0 {
					b := append([]byte(nil), steps[k].Data...)
					if cut := rapid.SampledFrom([]int{0, 0, 1, 4, 30, 60}).Draw(t, "cutTail"); cut > 0 && len(b)-cut > d.OffUDP+8 {
						b = b[:len(b)-cut]
						tl := len(b) - d.OffIP4
						b[d.OffIP4+2], b[d.OffIP4+3] = byte(tl>>8), byte(tl)
						b[d.OffIP4+10], b[d.OffIP4+11] = 0, 0
						cs := ref.Checksum(b[d.OffIP4 : d.OffIP4+20])
						b[d.OffIP4+10], b[d.OffIP4+11] = byte(cs>>8), byte(cs)
					}
					ul := len(b) - d.OffUDP + rapid.SampledFrom([]int{1, 8, 40, 300, 1000}).Draw(t, "udpExtra")
					b[d.OffUDP+4], b[d.OffUDP+5] = byte(ul>>8), byte(ul)
					steps[k].Data = b
				}
			}
			c.Steps = append(c.Steps, steps...)
		}
		return c
	}, func(tb drv.TB, c c10Case) { c10Run(tb, rec, "histories", c) })
	_ = net.IP{}
}
