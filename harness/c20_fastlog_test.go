//go:build verif

package harness

import (
	"bytes"
	"errors"
	"fmt"
	"math"
	"net"
	"net/netip"
	"strconv"
	"strings"
	"testing"
	"time"

	"github.com/irai/packet"
	"github.com/irai/packet/fastlog"
	"pgregory.net/rapid"
	"verifharness/drv"
	"verifharness/gen"
)

// C20 — Log formatting is faithful and stays within its buffer.

const c20Rule = "field values: all 65536 uint16 (decimal and hex), all 256 uint8, every byte value in every MAC position and in ByteArray, every IPv6 zero/non-zero group layout x 5 group-value shapes (as net.IP and netip.Addr) plus IPv4, 4-in-6, nil; boundary (every 10^k-1, 10^k, 10^k+1 and the binary extremes) and random uint32/int; rapid-drawn lines of 1..12 mixed fields whose reference text is < 2000 bytes (ToString and Write); over-long ByteArray/StringArray/IPArray after prefixes of drawn length (cut only when the complete line would not fit; the next line rendered from the pooled buffer must be complete); String() of every valid view and of table entries. reference = stdlib renderers (netip, net, strconv, fmt, time). non-trivial = IP with >= 1 zero group, line with >= 2 fields, or a truncated array; distinct by hash of the field list"

type c20Field struct {
	Kind  string   `json:"kind"`
	Name  string   `json:"name"`
	U     uint64   `json:"u,omitempty"`
	I     int64    `json:"i,omitempty"`
	S     string   `json:"s,omitempty"`
	B     drv.Hex  `json:"b,omitempty"`
	Strs  []string `json:"strs,omitempty"`
	IPs   []string `json:"ips,omitempty"` // textual IPs; "" = nil
	NilIP bool     `json:"nil_ip,omitempty"`
}

type c20Line struct {
	Module string     `json:"module"`
	Msg    string     `json:"msg"`
	Fields []c20Field `json:"fields"`
	Write  bool       `json:"write"`
}

func parseIPs(ss []string) []net.IP {
	var out []net.IP
	for _, s := range ss {
		if s == "" {
			out = append(out, nil)
			continue
		}
		a := netip.MustParseAddr(s)
		if a.Is4() {
			if len(s)%2 == 0 {
				out = append(out, net.IP(a.AsSlice())) // 4-byte form
			} else {
				b := a.As16()
				out = append(out, net.IP(b[:])) // 16-byte form of an IPv4 address
			}
			continue
		}
		b := a.As16()
		out = append(out, net.IP(b[:]))
	}
	return out
}

// apply appends the field to the line and returns the reference rendering.
func (f c20Field) apply(l *fastlog.Line) string {
	pre := " " + f.Name + "="
	switch f.Kind {
	case "uint8":
		l.Uint8(f.Name, uint8(f.U))
		return pre + strconv.FormatUint(f.U&0xff, 10)
	case "uint8hex":
		l.Uint8Hex(f.Name, uint8(f.U))
		return pre + fmt.Sprintf("0x%02x", f.U&0xff)
	case "uint16":
		l.Uint16(f.Name, uint16(f.U))
		return pre + strconv.FormatUint(f.U&0xffff, 10)
	case "uint16hex":
		l.Uint16Hex(f.Name, uint16(f.U))
		return pre + fmt.Sprintf("0x%04x", f.U&0xffff)
	case "uint32":
		l.Uint32(f.Name, uint32(f.U))
		return pre + strconv.FormatUint(f.U&0xffffffff, 10)
	case "int":
		l.Int(f.Name, int(f.I))
		return pre + strconv.Itoa(int(f.I))
	case "bool":
		l.Bool(f.Name, f.U != 0)
		return pre + strconv.FormatBool(f.U != 0)
	case "string":
		l.String(f.Name, f.S)
		return pre + `"` + f.S + `"`
	case "mac":
		l.MAC(f.Name, net.HardwareAddr(f.B))
		if len(f.B) != 6 {
			return pre + "nil"
		}
		return pre + net.HardwareAddr(f.B).String()
	case "bytearray":
		l.ByteArray(f.Name, f.B)
		parts := make([]string, len(f.B))
		for i, c := range f.B {
			parts[i] = fmt.Sprintf("%02x", c)
		}
		return pre + "[" + strings.Join(parts, " ") + "]"
	case "ip": // netip.Addr
		if f.NilIP {
			l.IP(f.Name, netip.Addr{})
			return pre + "nil"
		}
		a := netip.MustParseAddr(f.S)
		l.IP(f.Name, a)
		return pre + a.String()
	case "ipslice": // net.IP
		if f.NilIP {
			l.IPSlice(f.Name, nil)
			return pre + "nil"
		}
		ip := parseIPs([]string{f.S})[0]
		l.IPSlice(f.Name, ip)
		return pre + ip.String()
	case "duration":
		l.Duration(f.Name, time.Duration(f.I))
		return pre + time.Duration(f.I).String()
	case "stringer": // the reference is the value's own String(): what the appender documents it writes
		var v fmt.Stringer
		switch f.U % 4 {
		case 0:
			v = time.Duration(f.I)
		case 1:
			v = netip.MustParseAddr(f.S)
		case 2:
			v = net.HardwareAddr(f.B)
		default: // a type that implements both fmt.Stringer and fastlog.FastLog, with different texts
			v = packet.Addr{MAC: net.HardwareAddr(f.B), IP: netip.MustParseAddr(f.S), Port: uint16(f.I)}
		}
		l.Stringer(v)
		return " " + v.String()
	case "bytes":
		l.Bytes(f.Name, f.B)
		return pre + string(f.B)
	case "sprintf":
		var v interface{}
		switch f.U % 3 {
		case 0:
			v = f.I
		case 1:
			v = struct {
				A int
				B string
			}{int(f.I), f.S}
		default:
			v = f.Strs
		}
		l.Sprintf(f.Name, v)
		return pre + fmt.Sprintf("%+v", v)
	case "module":
		l.Module(f.Name, f.S)
		r := "\n" + modulePrefix(f.Name)
		if f.Name == "" {
			r = "\n"
		}
		if f.S != "" {
			r += ` "` + f.S + `"`
		}
		return r
	case "lf":
		l.LF()
		return "\n"
	case "time":
		tm := time.Unix(f.I/1000, (f.I%1000)*1e6)
		l.Time(f.Name, tm)
		return pre + tm.Format(time.StampMilli)
	case "error":
		l.Error(errors.New(f.S))
		return " error=[" + f.S + "]"
	case "label":
		l.Label(f.Name)
		return " " + f.Name
	case "strarray":
		l.StringArray(f.Name, f.Strs)
		return pre + c20Array(quoteAll(f.Strs))
	case "iparray":
		ips := parseIPs(f.IPs)
		l.IPArray(f.Name, ips)
		return pre + c20Array(ipTexts(ips))
	}
	panic("unknown field kind " + f.Kind)
}

// c20Array is the array framing the package uses: elements separated by ", "
// inside brackets (the code leaves a comma after the last element; the
// statement fixes the element texts and the brackets, not the separator).
func c20Array(elems []string) string {
	if len(elems) == 0 {
		return "[]"
	}
	return "[" + strings.Join(elems, ", ") + ",]"
}

func quoteAll(s []string) []string {
	out := make([]string, len(s))
	for i := range s {
		out[i] = `"` + s[i] + `"`
	}
	return out
}

func ipTexts(ips []net.IP) []string {
	out := make([]string, len(ips))
	for i, ip := range ips {
		if ip == nil {
			out[i] = ""
		} else {
			out[i] = ip.String()
		}
	}
	return out
}

func modulePrefix(m string) string {
	b := []byte("      :")
	copy(b[:6], m)
	return string(b)
}

func c20RunLine(tb drv.TB, rec *drv.Rec, sub string, c c20Line) {
	rec.Eval()
	var got, want string
	var wrote bytes.Buffer
	if p, sig, st := drv.Catch(func() {
		logger := fastlog.New(c.Module)
		l := logger.Msg(c.Msg)
		want = modulePrefix(c.Module)
		if c.Msg != "" {
			want += ` "` + c.Msg + `"`
		}
		for _, f := range c.Fields {
			want += f.apply(l)
		}
		if c.Write {
			old := fastlog.DefaultIOWriter
			fastlog.DefaultIOWriter = &wrote
			l.Write()
			fastlog.DefaultIOWriter = old
			got = wrote.String()
			want += "\n"
		} else {
			got = l.ToString()
		}
	}); p != nil {
		rec.Violation(tb, sub, "line-"+sig, c, "rendering a line of %d fields panicked: %v\n%s", len(c.Fields), p, st)
		return
	}
	if got != want {
		kind := "multi"
		if len(c.Fields) == 1 {
			kind = c.Fields[0].Kind
		} else {
			for _, f := range c.Fields { // attribute the difference to the first field kind that differs
				single := c20Line{Module: c.Module, Fields: []c20Field{f}}
				l := fastlog.New(single.Module).Msg("")
				w := modulePrefix(single.Module) + f.apply(l)
				if l.ToString() != w {
					kind = f.Kind
					break
				}
			}
		}
		rec.Violation(tb, sub, "render-"+kind, c, "line renders as\n  %q\nreference\n  %q", got, want)
		return
	}
	nt := len(c.Fields) >= 2
	for _, f := range c.Fields {
		if (f.Kind == "ip" || f.Kind == "ipslice") && strings.Contains(f.S, ":") {
			nt = true
		}
	}
	if nt {
		rec.NonTrivial(drv.HashJSON(c), func() interface{} { return c })
	}
}

// ---- truncation

type c20Trunc struct {
	Prefix int      `json:"prefix"` // length of the string field written first
	Kind   string   `json:"kind"`   // bytearray | strarray | iparray
	Name   string   `json:"name"`
	N      int      `json:"n"` // number of elements
	ElemL  int      `json:"elem_len"`
	IPs    []string `json:"ips,omitempty"`
	NilAt  int      `json:"nil_at,omitempty"` // iparray: entries from this index on are nil (0 = none, 1 = all, k = from k-1)
}

func c20RunTrunc(tb drv.TB, rec *drv.Rec, sub string, c c20Trunc) {
	rec.Eval()
	var got string
	pre := strings.Repeat("p", c.Prefix)
	var f c20Field
	switch c.Kind {
	case "bytearray":
		b := make([]byte, c.N)
		for i := range b {
			b[i] = byte(i*7 + 1)
		}
		f = c20Field{Kind: "bytearray", Name: c.Name, B: b}
	case "strarray":
		s := make([]string, c.N)
		for i := range s {
			s[i] = strings.Repeat(string(rune('a'+i%26)), c.ElemL)
		}
		f = c20Field{Kind: "strarray", Name: c.Name, Strs: s}
	case "iparray":
		ips := make([]string, c.N)
		for i := range ips {
			ips[i] = c.IPs[i%len(c.IPs)]
			if c.NilAt > 0 && i >= c.NilAt-1 {
				ips[i] = "" // a nil entry: rendered as an empty element
			}
		}
		f = c20Field{Kind: "iparray", Name: c.Name, IPs: ips}
	}
	var full string
	if p, sig, st := drv.Catch(func() {
		l := fastlog.New("trunc").Msg("")
		l.String("p", pre)
		full = f.apply(l)
		got = l.ToString()
	}); p != nil {
		rec.Violation(tb, sub, "trunc-"+c.Kind+"-"+sig, c, "%s of %d elements after a %d byte prefix panicked: %v\n%s", c.Kind, c.N, c.Prefix, p, st)
		return
	}
	// the line buffers are pooled: whatever the over-long line did to its buffer, the next line must be rendered in full
	fb := c20Field{Kind: "bytearray", Name: "b", B: []byte{1, 2, 0xfe}}
	var got2, want2 string
	if p, sig, st := drv.Catch(func() {
		l2 := fastlog.New("after").Msg("")
		want2 = modulePrefix("after") + fb.apply(l2)
		got2 = l2.ToString()
	}); p != nil {
		rec.Violation(tb, sub, "trunc-next-line-"+sig, c, "the line rendered after an over-long %s panicked: %v\n%s", c.Kind, p, st)
		return
	}
	if got2 != want2 {
		rec.Violation(tb, sub, "trunc-poisons-next-line", c, "the line rendered after an over-long %s reads %q, want %q", c.Kind, got2, want2)
		return
	}
	head := modulePrefix("trunc") + ` p="` + pre + `"`
	if len(got) > 2048 {
		rec.Violation(tb, sub, "trunc-overflow", c, "line is %d bytes", len(got))
		return
	}
	if !strings.HasPrefix(got, head) {
		rec.Violation(tb, sub, "trunc-prefix-damaged", c, "text before the array was altered: %q", got[:min(len(got), 80)])
		return
	}
	rest := got[len(head):]
	if rest == full {
		rec.Class("trunc: fitted " + c.Kind)
		return
	}
	rec.Class("trunc: truncated " + c.Kind)
	if len(head)+len(full) < 2000 { // the same "fits the line buffer" rule as the lines sub-check: such a line must be complete
		rec.Violation(tb, sub, "trunc-premature-"+c.Kind, c, "the complete line would take %d of 2048 bytes, but the array was cut: %q", len(head)+len(full), rest[:min(len(rest), 120)])
		return
	}
	// the rendered elements must be a prefix of the reference elements
	open := " " + c.Name + "=["
	if rest == "" {
		rec.NonTrivial(drv.HashJSON(c), func() interface{} { return c })
		return // field skipped entirely: allowed ("truncated inside the buffer")
	}
	if !strings.HasPrefix(rest, open) && !(c.Kind != "bytearray" && strings.HasPrefix(rest, " "+c.Name+"=")) {
		rec.Violation(tb, sub, "trunc-framing-"+c.Kind, c, "truncated field does not start with %q: %q", open, rest[:min(len(rest), 60)])
		return
	}
	body := strings.TrimPrefix(strings.TrimPrefix(rest, " "+c.Name+"="), "[")
	if i := strings.IndexByte(body, ']'); i >= 0 {
		body = body[:i]
	}
	refBody := strings.TrimSuffix(strings.TrimPrefix(full, open), "]")
	body = strings.TrimRight(body, ", ")
	if !strings.HasPrefix(refBody, body) {
		rec.Violation(tb, sub, "trunc-elements-"+c.Kind, c, "rendered elements %q are not a prefix of the reference %q", body[:min(len(body), 80)], refBody[:min(len(refBody), 80)])
		return
	}
	rec.NonTrivial(drv.HashJSON(c), func() interface{} { return c })
}

// ---- String() of views and table entries

func c20RunViewString(tb drv.TB, rec *drv.Rec, sub string, cs c01Case) {
	rec.Eval()
	vd := c01ViewByName(cs.View)
	if vd == nil {
		return
	}
	in := exactCopy(cs.Data)
	view := vd.mk(in)
	ok, sig, _ := viewValid(view)
	if sig != "" || !ok {
		return // C01's subject
	}
	st, has := view.(fmt.Stringer)
	if !has {
		return
	}
	var text string
	if p, psig, stk := drv.Catch(func() { text = st.String() }); p != nil {
		rec.Violation(tb, sub, "string-"+cs.View+"-"+psig, cs, "%s(%d bytes).String() panicked: %v\n%s", cs.View, len(in), p, stk)
		return
	}
	if len(text) > 2048 {
		rec.Violation(tb, sub, "string-overflow-"+cs.View, cs, "%s.String() returned %d bytes", cs.View, len(text))
		return
	}
	rec.Class("string view=" + cs.View)
	rec.NonTrivial(drv.HashBytes([]byte("S"+cs.View), cs.Data), func() interface{} { return cs })
}

var c20Names = []string{"ip", "mac", "len", "x", "payloadlen", "a_b", "n1"}

func c20GenIP6(t *rapid.T) string {
	var a [16]byte
	layout := rapid.IntRange(0, 255).Draw(t, "layout")
	shape := rapid.SampledFrom([]uint16{0x1, 0x10, 0x100, 0x1000, 0xffff, 0xab, 0xa0b}).Draw(t, "shape")
	for g := 0; g < 8; g++ {
		if layout&(1<<uint(g)) != 0 {
			a[2*g], a[2*g+1] = byte(shape>>8), byte(shape)
		}
	}
	return netip.AddrFrom16(a).String()
}

// Values at which the number of digits changes, and their neighbours: 10^k-1, 10^k, 10^k+1 for every k that fits, with the
// binary extremes (a digit-count ladder with one wrong rung shows at exactly one such value).
var c20EdgesU32, c20EdgesInt = func() ([]uint32, []int64) {
	u := []uint32{0, 1, 4294967295, 4294967294, 1 << 31, 1<<31 - 1}
	for p := uint64(10); p <= 1000000000; p *= 10 {
		u = append(u, uint32(p-1), uint32(p), uint32(p+1))
	}
	i := []int64{0, -1, 1, 1<<31 - 1, -1 << 31, 1 << 31, 1<<32 - 1, 1 << 32, -1 << 32, 1<<63 - 1, -1 << 63, -1<<63 + 1}
	for p := int64(10); p > 0 && p <= 1000000000000000000; p *= 10 {
		i = append(i, p-1, p, p+1, -p+1, -p, -p-1)
	}
	return u, i
}()

// c20GenDuration: everyday values, the boundaries of the unit switches, whole seconds at and beyond 2^31 / 2^32 seconds,
// the extremes and negative values.
func c20GenDuration(t *rapid.T) int64 {
	return rapid.OneOf(rapid.Int64Range(0, int64(48*time.Hour)), rapid.SampledFrom([]int64{0, 1, 999, 1000, int64(time.Second), int64(90 * time.Minute), -5e9,
		int64(1<<31) * int64(time.Second), (int64(1<<32) - 1) * int64(time.Second), int64(1<<32) * int64(time.Second), (int64(1<<32) + 61) * int64(time.Second), int64(150*365*24) * int64(time.Hour),
		math.MaxInt64, math.MinInt64, -int64(1<<32) * int64(time.Second)}), rapid.Int64()).Draw(t, "dur")
}

func c20GenField(t *rapid.T) c20Field {
	f := c20Field{Name: rapid.SampledFrom(c20Names).Draw(t, "name")}
	f.Kind = rapid.SampledFrom([]string{"uint8", "uint8hex", "uint16", "uint16hex", "uint32", "int", "bool", "string", "mac", "bytearray", "ip", "ipslice", "duration", "time", "error", "label", "strarray", "iparray", "stringer", "bytes", "sprintf", "module", "lf"}).Draw(t, "kind")
	switch f.Kind {
	case "uint8", "uint8hex":
		f.U = uint64(rapid.Byte().Draw(t, "u8"))
	case "uint16", "uint16hex":
		f.U = uint64(rapid.Uint16().Draw(t, "u16"))
	case "uint32":
		f.U = uint64(rapid.OneOf(rapid.Uint32(), rapid.SampledFrom(c20EdgesU32)).Draw(t, "u32"))
	case "int":
		f.I = rapid.OneOf(rapid.Int64Range(-1<<40, 1<<40), rapid.SampledFrom(c20EdgesInt)).Draw(t, "int")
	case "bool":
		f.U = uint64(rapid.IntRange(0, 1).Draw(t, "b"))
	case "string", "error":
		f.S = rapid.StringOfN(rapid.RuneFrom([]rune("abc XYZ09-_.:/=\"")), 0, 40, -1).Draw(t, "s")
	case "mac":
		if rapid.IntRange(0, 9).Draw(t, "badmac") == 0 {
			f.B = gen.Bytes(t, rapid.SampledFrom([]int{0, 5, 7, 8}).Draw(t, "ml"), "mac")
		} else {
			f.B = gen.Bytes(t, 6, "mac")
		}
	case "bytearray":
		f.B = gen.Bytes(t, rapid.IntRange(0, 40).Draw(t, "bl"), "ba")
	case "ip", "ipslice":
		switch rapid.IntRange(0, 5).Draw(t, "ipk") {
		case 0:
			f.NilIP = true
		case 1:
			f.S = netip.AddrFrom4([4]byte{rapid.Byte().Draw(t, "a"), rapid.Byte().Draw(t, "b"), rapid.Byte().Draw(t, "c"), rapid.Byte().Draw(t, "d")}).String()
		case 2:
			f.S = "::ffff:" + netip.AddrFrom4([4]byte{rapid.Byte().Draw(t, "a"), 2, 3, 4}).String()
		default:
			f.S = c20GenIP6(t)
		}
	case "duration":
		f.I = c20GenDuration(t)
	case "stringer":
		f.U = uint64(rapid.IntRange(0, 3).Draw(t, "sk"))
		f.I = c20GenDuration(t)
		f.S = rapid.OneOf(rapid.Just("192.168.0.7"), rapid.Just("::ffff:10.0.0.1"), rapid.Just("fe80::1%eth0"), rapid.Custom(c20GenIP6)).Draw(t, "sip")
		f.B = gen.Bytes(t, 6, "smac")
		if f.U == 3 {
			f.I = int64(rapid.Uint16().Draw(t, "port"))
			if strings.Contains(f.S, "%") {
				f.S = "fe80::1"
			}
		}
	case "bytes":
		f.B = []byte(rapid.StringOfN(rapid.RuneFrom([]rune("abcxyz012 .-=")), 0, 40, -1).Draw(t, "bv"))
	case "sprintf":
		f.U = uint64(rapid.IntRange(0, 2).Draw(t, "pk"))
		f.I = rapid.Int64().Draw(t, "pi")
		f.S = rapid.StringOfN(rapid.RuneFrom([]rune("abc xyz")), 0, 12, -1).Draw(t, "ps")
		f.Strs = rapid.SliceOfN(rapid.SampledFrom([]string{"a", "", "b c"}), 0, 3).Draw(t, "pl")
	case "module":
		f.Name = rapid.SampledFrom([]string{"dhcp4", "arp", "packet", "x"}).Draw(t, "mname")
		f.S = rapid.SampledFrom([]string{"", "msg", "two words"}).Draw(t, "mmsg")
	case "time":
		f.I = rapid.Int64Range(0, 4102444800000).Draw(t, "ms")
	case "strarray":
		n := rapid.IntRange(0, 5).Draw(t, "ns")
		for i := 0; i < n; i++ {
			f.Strs = append(f.Strs, rapid.StringOfN(rapid.RuneFrom([]rune("abcxyz012.-")), 0, 20, -1).Draw(t, "se"))
		}
	case "iparray":
		n := rapid.IntRange(0, 4).Draw(t, "ni")
		for i := 0; i < n; i++ {
			switch rapid.IntRange(0, 3).Draw(t, "ik") {
			case 0:
				f.IPs = append(f.IPs, netip.AddrFrom4([4]byte{10, rapid.Byte().Draw(t, "b"), 0, byte(rapid.IntRange(0, 99).Draw(t, "d"))}).String())
			default:
				f.IPs = append(f.IPs, c20GenIP6(t))
			}
		}
	}
	return f
}

func TestC20(t *testing.T) {
	rec := drv.For("C20", c20Rule)
	one := func(tb drv.TB, sub string, f c20Field) {
		c20RunLine(tb, rec, sub, c20Line{Module: "c20", Fields: []c20Field{f}})
	}

	// (1) exhaustive single-field spaces
	drv.Enum(t, rec, "uint16-all", 65536, func(i int) c20Field { return c20Field{Kind: "uint16", Name: "v", U: uint64(i)} },
		func(tb drv.TB, f c20Field) {
			one(tb, "uint16-all", f)
			f.Kind = "uint16hex"
			one(tb, "uint16-all", f)
			if f.U < 256 {
				f.Kind = "uint8"
				one(tb, "uint16-all", f)
				f.Kind = "uint8hex"
				one(tb, "uint16-all", f)
				for pos := 0; pos < 6; pos++ { // every byte value in every MAC position
					m := []byte{0x00, 0x11, 0x9a, 0xa9, 0xf0, 0x0f}
					m[pos] = byte(f.U)
					one(tb, "uint16-all", c20Field{Kind: "mac", Name: "mac", B: m})
				}
				one(tb, "uint16-all", c20Field{Kind: "bytearray", Name: "b", B: []byte{byte(f.U), ^byte(f.U)}})
			}
		})
	shapes := []uint16{0x1, 0x10, 0x100, 0x1000, 0xffff}
	drv.Enum(t, rec, "ipv6-layouts", 256*len(shapes), func(i int) c20Field {
		var a [16]byte
		layout, shape := i%256, shapes[i/256]
		for g := 0; g < 8; g++ {
			if layout&(1<<uint(g)) != 0 {
				a[2*g], a[2*g+1] = byte(shape>>8), byte(shape)
			}
		}
		return c20Field{Kind: "ipslice", Name: "ip", S: netip.AddrFrom16(a).String()}
	}, func(tb drv.TB, f c20Field) {
		one(tb, "ipv6-layouts", f)
		f.Kind = "ip"
		one(tb, "ipv6-layouts", f)
		one(tb, "ipv6-layouts", c20Field{Kind: "iparray", Name: "ips", IPs: []string{f.S, "10.0.0.1", f.S}})
	})

	// (2) lines
	drv.Prop(t, rec, "lines", 30000, 600000, func(t *rapid.T) c20Line {
		c := c20Line{Module: rapid.SampledFrom([]string{"packet", "arp", "dhcp4", "x", ""}).Draw(t, "module"), Msg: rapid.SampledFrom([]string{"", "hello", "IP is online", "a b c"}).Draw(t, "msg"), Write: rapid.Bool().Draw(t, "write")}
		n := rapid.IntRange(1, 12).Draw(t, "nfields")
		for i := 0; i < n; i++ {
			c.Fields = append(c.Fields, c20GenField(t))
		}
		return c
	}, func(tb drv.TB, c c20Line) { c20RunLine(tb, rec, "lines", c) })

	// (3) truncation
	drv.Prop(t, rec, "truncation", 10000, 200000, func(t *rapid.T) c20Trunc {
		c := c20Trunc{Kind: rapid.SampledFrom([]string{"bytearray", "strarray", "iparray"}).Draw(t, "kind"), Name: rapid.SampledFrom(c20Names).Draw(t, "name")}
		// the prefix leaves room for the field name and the TRUNCATED marker (the documented precondition)
		c.Prefix = rapid.OneOf(rapid.IntRange(0, 1990), rapid.IntRange(1800, 1990), rapid.IntRange(0, 200)).Draw(t, "prefix")
		switch c.Kind {
		case "bytearray":
			c.N = rapid.OneOf(rapid.IntRange(0, 900), rapid.IntRange(0, 40)).Draw(t, "n")
		case "strarray":
			c.N, c.ElemL = rapid.IntRange(0, 60).Draw(t, "n"), rapid.IntRange(0, 80).Draw(t, "el")
		case "iparray":
			c.N = rapid.IntRange(0, 80).Draw(t, "n")
			c.IPs = []string{c20GenIP6(t), c20GenIP6(t)}
			switch rapid.IntRange(0, 5).Draw(t, "short") {
			case 0: // many short addresses: far more than 49 of them fit a line
				c.N = rapid.IntRange(40, 260).Draw(t, "nShort")
				c.IPs = []string{"10.0.0.1", "::1", "10.1.2.3"}
			case 1: // IPv4 addresses of full width (15 and 14 characters): the line fills up in steps of 17 / 16 bytes, every alignment of the last element against the end of the buffer occurs
				c.N = rapid.IntRange(100, 200).Draw(t, "nWide")
				c.IPs = [][]string{{"192.168.100.200"}, {"192.168.100.20"}, {"192.168.100.200", "192.168.100.20"}, {"192.168.100.200", "10.0.0.1"}}[rapid.IntRange(0, 3).Draw(t, "wide")]
				c.Prefix = rapid.IntRange(0, 40).Draw(t, "widePrefix")
			}
			if rapid.IntRange(0, 3).Draw(t, "withNil") == 0 { // nil entries cost two bytes each: long runs of them reach the end of the buffer too
				c.N = rapid.IntRange(0, 1200).Draw(t, "nNil")
				c.NilAt = 1 + rapid.SampledFrom([]int{0, 0, 1, 10, 40, 45, 46, 47, 48, 49, 50}).Draw(t, "nilFrom")
			}
		}
		return c
	}, func(tb drv.TB, c c20Trunc) { c20RunTrunc(tb, rec, "truncation", c) })

	// (4) String() of valid views
	w := gen.DefaultWorld()
	drv.Prop(t, rec, "view-strings", 30000, 600000, func(t *rapid.T) c01Case {
		v := rapid.SampledFrom(c01Views).Draw(t, "view")
		b := w.ViewBytes(t, v.name)
		lim := 400
		if v.name == "LLDP" {
			lim = 100 // keeps the rendered text inside the 2048 byte line (the statement's precondition)
		}
		if len(b) > lim {
			b = b[:lim]
		}
		return c01Case{View: v.name, Data: b}
	}, func(tb drv.TB, c c01Case) { c20RunViewString(tb, rec, "view-strings", c) })

	// (5) String() of table entries built through the session API
	type entCase struct {
		Names []string `json:"names"`
		IP6   string   `json:"ip6"`
	}
	drv.Prop(t, rec, "entry-strings", 300, 6000, func(t *rapid.T) entCase {
		c := entCase{IP6: c20GenIP6(t)}
		for i := 0; i < 5; i++ {
			c.Names = append(c.Names, rapid.StringOfN(rapid.RuneFrom([]rune("abcXYZ 0129-_.'\"")), 0, 64, -1).Draw(t, "n"))
		}
		return c
	}, func(tb drv.TB, c entCase) {
		rec.Eval()
		s, _ := newSession(defaultNIC())
		defer closeSession(s)
		mac := net.HardwareAddr{0, 2, 3, 4, 5, 9}
		if p, sig, st := drv.Catch(func() {
			s.DHCPv4Update(mac, netip.MustParseAddr("192.168.0.77"), packet.NameEntry{Type: "dhcp4", Name: c.Names[0]})
			h := s.FindIP(netip.MustParseAddr("192.168.0.77"))
			h.UpdateMDNSName(packet.NameEntry{Type: "mdns", Name: c.Names[1], Model: c.Names[2]})
			h.UpdateSSDPName(packet.NameEntry{Type: "ssdp", Name: c.Names[3], Manufacturer: c.Names[4], OS: "os", Expire: time.Now()})
			_ = h.String()
			_ = h.MACEntry.String()
			_ = h.Addr.String()
			_ = h.DHCP4Name.FastLog(fastlog.New("x").Msg("")).ToString()
			s.Notify(packet.Frame{Host: h})
			select {
			case n := <-s.C:
				_ = n.String()
			default:
			}
			e := packet.NewDNSEntry()
			e.Name = c.Names[0]
			a6 := netip.MustParseAddr(c.IP6)
			e.IP6Records[a6] = packet.IPResourceRecord{Name: c.Names[1], IP: a6}
			e.IP4Records[netip.MustParseAddr("1.2.3.4")] = packet.IPResourceRecord{Name: c.Names[1], IP: netip.MustParseAddr("1.2.3.4")}
			e.CNameRecords[c.Names[2]] = packet.NameResourceRecord{Name: c.Names[2], CName: c.Names[3]}
			_ = fastlog.New("x").Msg("").Struct(e).ToString()
			_ = (packet.IPNameEntry{Addr: h.Addr, NameEntry: h.MDNSName}).FastLog(fastlog.New("x").Msg("")).ToString()
		}); p != nil {
			rec.Violation(tb, "entry-strings", "entry-"+sig, c, "String() of a table entry panicked: %v\n%s", p, st)
			return
		}
		rec.NonTrivial(drv.HashJSON(c), func() interface{} { return c })
	})
}
