package ref

import (
	"encoding/binary"
	"errors"
)

// DHCPv4 (RFC 2131 / 2132) message builder and decoder.

type DHCPOpt struct {
	Code byte
	Data []byte
}

type DHCPMsg struct {
	Op, HType, HLen, Hops          byte
	XID                            [4]byte
	Secs, Flags                    uint16
	CIAddr, YIAddr, SIAddr, GIAddr [4]byte
	CHAddr                         MAC
	SName, File                    []byte
	Options                        []DHCPOpt // wire order, without pad/end
}

var DHCPCookie = []byte{99, 130, 83, 99}

// Encode serialises the message: fixed part, cookie, options in order, End, optional padding to 300 bytes.
func (m DHCPMsg) Encode(pad300 bool) []byte {
	b := make([]byte, 240)
	b[0], b[1], b[2], b[3] = m.Op, m.HType, m.HLen, m.Hops
	copy(b[4:8], m.XID[:])
	binary.BigEndian.PutUint16(b[8:], m.Secs)
	binary.BigEndian.PutUint16(b[10:], m.Flags)
	copy(b[12:], m.CIAddr[:])
	copy(b[16:], m.YIAddr[:])
	copy(b[20:], m.SIAddr[:])
	copy(b[24:], m.GIAddr[:])
	copy(b[28:34], m.CHAddr[:])
	copy(b[44:108], m.SName)
	copy(b[108:236], m.File)
	copy(b[236:240], DHCPCookie)
	for _, o := range m.Options {
		b = append(b, o.Code, byte(len(o.Data)))
		b = append(b, o.Data...)
	}
	b = append(b, 255)
	if pad300 {
		for len(b) < 300 {
			b = append(b, 0)
		}
	}
	return b
}

// Opt returns the first option with the code.
func (m DHCPMsg) Opt(code byte) ([]byte, bool) {
	for _, o := range m.Options {
		if o.Code == code {
			return o.Data, true
		}
	}
	return nil, false
}

// OptIndex returns the wire position of the first option with the code, or -1.
func (m DHCPMsg) OptIndex(code byte) int {
	for i, o := range m.Options {
		if o.Code == code {
			return i
		}
	}
	return -1
}

// MsgType returns option 53 or 0.
func (m DHCPMsg) MsgType() byte {
	if d, ok := m.Opt(53); ok && len(d) == 1 {
		return d[0]
	}
	return 0
}

// DecodeDHCP decodes a complete DHCP message; the option list must be terminated by End.
func DecodeDHCP(b []byte) (DHCPMsg, error) {
	var m DHCPMsg
	if len(b) < 240 {
		return m, errors.New("dhcp: shorter than 240 bytes")
	}
	if string(b[236:240]) != string(DHCPCookie) {
		return m, errors.New("dhcp: bad magic cookie")
	}
	m.Op, m.HType, m.HLen, m.Hops = b[0], b[1], b[2], b[3]
	copy(m.XID[:], b[4:8])
	m.Secs, m.Flags = binary.BigEndian.Uint16(b[8:]), binary.BigEndian.Uint16(b[10:])
	copy(m.CIAddr[:], b[12:])
	copy(m.YIAddr[:], b[16:])
	copy(m.SIAddr[:], b[20:])
	copy(m.GIAddr[:], b[24:])
	copy(m.CHAddr[:], b[28:34])
	m.SName = append([]byte(nil), b[44:108]...)
	m.File = append([]byte(nil), b[108:236]...)
	o := b[240:]
	for {
		if len(o) == 0 {
			return m, errors.New("dhcp: option list not terminated by End")
		}
		if o[0] == 255 {
			return m, nil
		}
		if o[0] == 0 {
			o = o[1:]
			continue
		}
		if len(o) < 2 || len(o) < 2+int(o[1]) {
			return m, errors.New("dhcp: option runs past the end of the message")
		}
		m.Options = append(m.Options, DHCPOpt{o[0], append([]byte(nil), o[2:2+int(o[1])]...)})
		o = o[2+int(o[1]):]
	}
}

// DHCPOptions decodes an option area into a map. ok is false when a code occurs
// twice (RFC 3396 concatenation vs. last-wins is not something the library documents).
func DHCPOptions(o []byte) (map[byte][]byte, bool) {
	out := map[byte][]byte{}
	ok := true
	for len(o) >= 1 && o[0] != 255 {
		if o[0] == 0 {
			o = o[1:]
			continue
		}
		if len(o) < 2 || len(o) < 2+int(o[1]) {
			return out, false
		}
		if _, dup := out[o[0]]; dup {
			ok = false
		}
		out[o[0]] = o[2 : 2+int(o[1])]
		o = o[2+int(o[1]):]
	}
	return out, ok
}
