package ref

// TLV is an LLDP TLV (IEEE 802.1AB: 7-bit type, 9-bit length).
type TLV struct {
	Type  int
	Value []byte
}

// LLDPTLVs decodes an LLDPDU. complete is true when the list ends with the
// End-of-LLDPDU TLV and every TLV is entirely inside b.
func LLDPTLVs(b []byte) (tlvs []TLV, complete bool) {
	for {
		if len(b) < 2 {
			return tlvs, false
		}
		t := int(b[0] >> 1)
		l := int(b[0]&1)<<8 | int(b[1])
		if t == 0 && l == 0 {
			return tlvs, true
		}
		if len(b) < 2+l {
			return tlvs, false
		}
		tlvs = append(tlvs, TLV{t, b[2 : 2+l]})
		b = b[2+l:]
	}
}
