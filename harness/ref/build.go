package ref

import (
	"encoding/binary"
	"net/netip"
)

// Builders for wire formats, written from the RFC header layouts.

type MAC [6]byte

func be16(v uint16) []byte { return []byte{byte(v >> 8), byte(v)} }
func be32(v uint32) []byte { return []byte{byte(v >> 24), byte(v >> 16), byte(v >> 8), byte(v)} }

// Eth builds an Ethernet II / 802.3 frame (the type/length field is given as is).
func Eth(dst, src MAC, etype uint16, payload []byte) []byte {
	b := make([]byte, 0, 14+len(payload))
	b = append(b, dst[:]...)
	b = append(b, src[:]...)
	b = append(b, be16(etype)...)
	return append(b, payload...)
}

// EthTagged builds a frame with one (802.1Q, 0x8100) or two (802.1ad, 0x88a8 + 0x8100) tags.
func EthTagged(dst, src MAC, double bool, tci1, tci2 uint16, inner uint16, payload []byte) []byte {
	b := make([]byte, 0, 22+len(payload))
	b = append(b, dst[:]...)
	b = append(b, src[:]...)
	if double {
		b = append(b, be16(0x88a8)...)
		b = append(b, be16(tci1)...)
	}
	b = append(b, be16(0x8100)...)
	b = append(b, be16(tci2)...)
	b = append(b, be16(inner)...)
	return append(b, payload...)
}

// IP4Hdr are the RFC 791 header fields.
type IP4Hdr struct {
	IHL      int // in bytes, multiple of 4 (20..60)
	TOS      byte
	TotalLen int // -1: computed
	ID       uint16
	Flags    byte   // 3 bits
	FragOff  uint16 // 13 bits
	TTL      byte
	Proto    byte
	Checksum int // -1: computed
	Src, Dst [4]byte
	Options  []byte // padded/truncated to IHL-20
}

// IP4 builds an IPv4 packet.
func IP4(h IP4Hdr, payload []byte) []byte {
	if h.IHL == 0 {
		h.IHL = 20
	}
	hl := h.IHL
	if hl < 20 {
		hl = 20 // the fixed part is always written; IHL field may lie
	}
	b := make([]byte, hl, hl+len(payload))
	b[0] = 4<<4 | byte(h.IHL/4)&0x0f
	b[1] = h.TOS
	tl := h.TotalLen
	if tl < 0 {
		tl = hl + len(payload)
	}
	binary.BigEndian.PutUint16(b[2:], uint16(tl))
	binary.BigEndian.PutUint16(b[4:], h.ID)
	binary.BigEndian.PutUint16(b[6:], uint16(h.Flags&7)<<13|h.FragOff&0x1fff)
	b[8] = h.TTL
	b[9] = h.Proto
	copy(b[12:16], h.Src[:])
	copy(b[16:20], h.Dst[:])
	copy(b[20:], h.Options)
	if h.Checksum < 0 {
		binary.BigEndian.PutUint16(b[10:], Checksum(b[:hl]))
	} else {
		binary.BigEndian.PutUint16(b[10:], uint16(h.Checksum))
	}
	return append(b, payload...)
}

// IP6Hdr are the RFC 8200 header fields.
type IP6Hdr struct {
	Class      byte
	Flow       uint32 // 20 bits
	PayloadLen int    // -1: computed
	Next       byte
	HopLimit   byte
	Src, Dst   [16]byte
}

func IP6(h IP6Hdr, payload []byte) []byte {
	b := make([]byte, 40, 40+len(payload))
	b[0] = 6<<4 | h.Class>>4
	b[1] = h.Class<<4 | byte(h.Flow>>16)&0x0f
	b[2] = byte(h.Flow >> 8)
	b[3] = byte(h.Flow)
	pl := h.PayloadLen
	if pl < 0 {
		pl = len(payload)
	}
	binary.BigEndian.PutUint16(b[4:], uint16(pl))
	b[6] = h.Next
	b[7] = h.HopLimit
	copy(b[8:24], h.Src[:])
	copy(b[24:40], h.Dst[:])
	return append(b, payload...)
}

// UDP builds a UDP datagram; length -1 = computed; checksum written as given.
func UDP(sport, dport uint16, length int, csum uint16, payload []byte) []byte {
	if length < 0 {
		length = 8 + len(payload)
	}
	b := make([]byte, 8, 8+len(payload))
	binary.BigEndian.PutUint16(b[0:], sport)
	binary.BigEndian.PutUint16(b[2:], dport)
	binary.BigEndian.PutUint16(b[4:], uint16(length))
	binary.BigEndian.PutUint16(b[6:], csum)
	return append(b, payload...)
}

// TCPHdr are the RFC 793 / 3168 / 3540 header fields.
type TCPHdr struct {
	Sport, Dport uint16
	Seq, Ack     uint32
	DataOff      int  // in 32-bit words (5..15)
	NS           bool // RFC 3540
	Flags        byte // CWR ECE URG ACK PSH RST SYN FIN
	Window       uint16
	Checksum     uint16
	Urgent       uint16
	Options      []byte
}

func TCP(h TCPHdr, payload []byte) []byte {
	hl := h.DataOff * 4
	if hl < 20 {
		hl = 20
	}
	b := make([]byte, hl, hl+len(payload))
	binary.BigEndian.PutUint16(b[0:], h.Sport)
	binary.BigEndian.PutUint16(b[2:], h.Dport)
	binary.BigEndian.PutUint32(b[4:], h.Seq)
	binary.BigEndian.PutUint32(b[8:], h.Ack)
	b[12] = byte(h.DataOff) << 4
	if h.NS {
		b[12] |= 1
	}
	b[13] = h.Flags
	binary.BigEndian.PutUint16(b[14:], h.Window)
	binary.BigEndian.PutUint16(b[16:], h.Checksum)
	binary.BigEndian.PutUint16(b[18:], h.Urgent)
	copy(b[20:], h.Options)
	return append(b, payload...)
}

// ARPPkt is an RFC 826 packet for Ethernet/IPv4 (hlen/plen may be forged).
type ARPPkt struct {
	HType, PType uint16
	HLen, PLen   byte
	Op           uint16
	SHA          MAC
	SPA          [4]byte
	THA          MAC
	TPA          [4]byte
}

func ARP(p ARPPkt) []byte {
	b := make([]byte, 28)
	binary.BigEndian.PutUint16(b[0:], p.HType)
	binary.BigEndian.PutUint16(b[2:], p.PType)
	b[4], b[5] = p.HLen, p.PLen
	binary.BigEndian.PutUint16(b[6:], p.Op)
	copy(b[8:], p.SHA[:])
	copy(b[14:], p.SPA[:])
	copy(b[18:], p.THA[:])
	copy(b[24:], p.TPA[:])
	return b
}

// ICMP builds an ICMPv4 message (RFC 792): checksum over the whole message.
func ICMP(typ, code byte, rest [4]byte, payload []byte, fixChecksum bool) []byte {
	b := make([]byte, 8, 8+len(payload))
	b[0], b[1] = typ, code
	copy(b[4:8], rest[:])
	b = append(b, payload...)
	if fixChecksum {
		binary.BigEndian.PutUint16(b[2:], Checksum(b))
	}
	return b
}

// PseudoHeader6 is the RFC 8200 section 8.1 pseudo-header.
func PseudoHeader6(src, dst [16]byte, upperLen uint32, next byte) []byte {
	b := make([]byte, 0, 40)
	b = append(b, src[:]...)
	b = append(b, dst[:]...)
	b = append(b, be32(upperLen)...)
	return append(b, 0, 0, 0, next)
}

// ICMP6 builds an ICMPv6 message with a correct checksum for src/dst.
func ICMP6(src, dst [16]byte, typ, code byte, body []byte) []byte {
	b := make([]byte, 4, 4+len(body))
	b[0], b[1] = typ, code
	b = append(b, body...)
	ph := PseudoHeader6(src, dst, uint32(len(b)), 58)
	binary.BigEndian.PutUint16(b[2:], Checksum(append(ph, b...)))
	return b
}

// ICMP6Verify checks the ICMPv6 checksum of msg under the pseudo-header.
func ICMP6Verify(src, dst [16]byte, msg []byte) bool {
	ph := PseudoHeader6(src, dst, uint32(len(msg)), 58)
	return Checksum(append(ph, msg...)) == 0
}

func A4(a netip.Addr) [4]byte   { return a.As4() }
func A16(a netip.Addr) [16]byte { return a.As16() }

// SolicitedNode returns the solicited-node multicast address and its MAC (RFC 4291 2.7.1, RFC 2464 7).
func SolicitedNode(a [16]byte) ([16]byte, MAC) {
	ip := [16]byte{0xff, 0x02, 0, 0, 0, 0, 0, 0, 0, 0, 0, 0x01, 0xff, a[13], a[14], a[15]}
	return ip, MAC{0x33, 0x33, ip[12], ip[13], ip[14], ip[15]}
}

// MulticastMAC6 is the RFC 2464 mapping of an IPv6 multicast address.
func MulticastMAC6(a [16]byte) MAC { return MAC{0x33, 0x33, a[12], a[13], a[14], a[15]} }
