package ref

import (
	"encoding/binary"
	"errors"
	"strings"
)

// DNS (RFC 1035) message builder with optional name compression and an
// independent strict decoder.

// Name is a sequence of labels (raw bytes, no dots implied).
type Name []string

func (n Name) String() string { return strings.Join(n, ".") }

// WireLen is the uncompressed wire length of the name.
func (n Name) WireLen() int {
	l := 1
	for _, s := range n {
		l += 1 + len(s)
	}
	return l
}

// EncodeName returns the uncompressed wire form.
func EncodeName(n Name) []byte {
	var b []byte
	for _, l := range n {
		b = append(b, byte(len(l)))
		b = append(b, l...)
	}
	return append(b, 0)
}

type Question struct {
	Name  Name
	Type  uint16
	Class uint16
}

// RR is a resource record. Exactly one of the RDATA forms is used depending on Type;
// Raw (if non-nil) overrides and is written verbatim.
type RR struct {
	Name   Name
	Type   uint16
	Class  uint16
	TTL    uint32
	A      [4]byte
	AAAA   [16]byte
	Target Name     // CNAME(5), PTR(12), NS(2), SRV target
	TXT    []string // TXT(16)
	SRV    [3]uint16
	Raw    []byte
	// RDLenOverride, when >= 0, is written instead of the real RDLENGTH (malformed messages).
	RDLenOverride int
}

type Msg struct {
	ID         uint16
	Flags      uint16
	Questions  []Question
	Answers    []RR
	Authority  []RR
	Additional []RR
	// CountOverride, when non-nil, replaces the four section counts (malformed messages).
	CountOverride *[4]uint16
}

// Compression modes.
const (
	NoCompression  = 0
	SuffixPointers = 1 // RFC 1035 4.1.4: reuse any earlier suffix
	OwnerOnly      = 2 // compress owner names only (what dnsmessage accepts inside SRV)
)

type encoder struct {
	b      []byte
	mode   int
	seen   map[string]int
	Ptrs   int // pointers emitted
	MaxHop int // deepest pointer chain produced
	hops   map[int]int
}

func (e *encoder) name(n Name, compress bool) {
	for i := range n {
		suffix := strings.Join(n[i:], "\x00") + "\x00"
		if compress && e.mode != NoCompression {
			if off, ok := e.seen[suffix]; ok && off < 0x3fff {
				e.b = append(e.b, 0xc0|byte(off>>8), byte(off))
				e.Ptrs++
				h := e.hops[off] + 1
				if h > e.MaxHop {
					e.MaxHop = h
				}
				// every label written before this pointer now sits on a chain one longer
				pos := len(e.b) - 2
				for j := i - 1; j >= 0; j-- {
					pos -= 1 + len(n[j])
					e.hops[pos] = h
				}
				return
			}
		}
		if len(e.b) < 0x3fff {
			if _, ok := e.seen[suffix]; !ok {
				e.seen[suffix] = len(e.b)
			}
		}
		e.b = append(e.b, byte(len(n[i])))
		e.b = append(e.b, n[i]...)
	}
	e.b = append(e.b, 0)
}

func (e *encoder) rr(r RR) {
	e.name(r.Name, true)
	e.b = append(e.b, be16(r.Type)...)
	e.b = append(e.b, be16(r.Class)...)
	e.b = append(e.b, be32(r.TTL)...)
	lenPos := len(e.b)
	e.b = append(e.b, 0, 0)
	start := len(e.b)
	inner := e.mode == SuffixPointers
	switch {
	case r.Raw != nil:
		e.b = append(e.b, r.Raw...)
	case r.Type == 1:
		e.b = append(e.b, r.A[:]...)
	case r.Type == 28:
		e.b = append(e.b, r.AAAA[:]...)
	case r.Type == 5 || r.Type == 12 || r.Type == 2:
		e.name(r.Target, inner)
	case r.Type == 16:
		for _, s := range r.TXT {
			e.b = append(e.b, byte(len(s)))
			e.b = append(e.b, s...)
		}
	case r.Type == 33:
		e.b = append(e.b, be16(r.SRV[0])...)
		e.b = append(e.b, be16(r.SRV[1])...)
		e.b = append(e.b, be16(r.SRV[2])...)
		e.name(r.Target, false)
	}
	rdlen := len(e.b) - start
	if r.RDLenOverride > 0 {
		rdlen = r.RDLenOverride - 1
	}
	binary.BigEndian.PutUint16(e.b[lenPos:], uint16(rdlen))
}

// Encode serialises the message. It reports how many pointers and how deep a chain it produced.
func (m Msg) Encode(mode int) (b []byte, ptrs, maxHop int) {
	e := &encoder{mode: mode, seen: map[string]int{}, hops: map[int]int{}}
	counts := [4]uint16{uint16(len(m.Questions)), uint16(len(m.Answers)), uint16(len(m.Authority)), uint16(len(m.Additional))}
	if m.CountOverride != nil {
		counts = *m.CountOverride
	}
	e.b = append(e.b, be16(m.ID)...)
	e.b = append(e.b, be16(m.Flags)...)
	for _, c := range counts {
		e.b = append(e.b, be16(c)...)
	}
	for _, q := range m.Questions {
		e.name(q.Name, true)
		e.b = append(e.b, be16(q.Type)...)
		e.b = append(e.b, be16(q.Class)...)
	}
	for _, sec := range [][]RR{m.Answers, m.Authority, m.Additional} {
		for _, r := range sec {
			e.rr(r)
		}
	}
	return e.b, e.Ptrs, e.MaxHop
}

// ---- decoder

var (
	ErrDNSTruncated = errors.New("dns: truncated")
	ErrDNSPointer   = errors.New("dns: bad compression pointer")
	ErrDNSLabel     = errors.New("dns: reserved label type")
	ErrDNSTooLong   = errors.New("dns: name longer than 255 bytes")
)

// DecodeName decodes the name at off; it returns the offset just after the
// name's in-place encoding.
func DecodeName(msg []byte, off int) (Name, int, error) {
	var n Name
	end := -1
	total := 0
	jumps := 0
	for {
		if off >= len(msg) {
			return nil, 0, ErrDNSTruncated
		}
		c := int(msg[off])
		switch c & 0xc0 {
		case 0x00:
			if c == 0 {
				if end < 0 {
					end = off + 1
				}
				if total+1 > 255 {
					return nil, 0, ErrDNSTooLong
				}
				return n, end, nil
			}
			if off+1+c > len(msg) {
				return nil, 0, ErrDNSTruncated
			}
			n = append(n, string(msg[off+1:off+1+c]))
			total += 1 + c
			if total+1 > 255 {
				return nil, 0, ErrDNSTooLong
			}
			off += 1 + c
		case 0xc0:
			if off+2 > len(msg) {
				return nil, 0, ErrDNSTruncated
			}
			ptr := int(binary.BigEndian.Uint16(msg[off:]) & 0x3fff)
			if end < 0 {
				end = off + 2
			}
			jumps++
			if jumps > 128 || ptr >= len(msg) {
				return nil, 0, ErrDNSPointer
			}
			off = ptr
		default:
			return nil, 0, ErrDNSLabel
		}
	}
}

// DecodedRR is a decoded resource record.
type DecodedRR struct {
	Name    Name
	Type    uint16
	Class   uint16
	TTL     uint32
	RData   []byte
	RDOff   int  // offset of RDATA in the message
	Target  Name // for CNAME/PTR/NS
	Section int  // 0 answer, 1 authority, 2 additional
}

type DecodedMsg struct {
	ID        uint16
	Flags     uint16
	Counts    [4]uint16
	Questions []Question
	RRs       []DecodedRR
}

// DecodeDNS strictly decodes a whole message: every counted entry must be
// present and well-formed; names inside CNAME/PTR/NS RDATA are decoded too.
func DecodeDNS(b []byte) (DecodedMsg, error) {
	var m DecodedMsg
	if len(b) < 12 {
		return m, ErrDNSTruncated
	}
	m.ID, m.Flags = binary.BigEndian.Uint16(b[0:]), binary.BigEndian.Uint16(b[2:])
	for i := range m.Counts {
		m.Counts[i] = binary.BigEndian.Uint16(b[4+2*i:])
	}
	off := 12
	for i := 0; i < int(m.Counts[0]); i++ {
		n, next, err := DecodeName(b, off)
		if err != nil {
			return m, err
		}
		if next+4 > len(b) {
			return m, ErrDNSTruncated
		}
		m.Questions = append(m.Questions, Question{n, binary.BigEndian.Uint16(b[next:]), binary.BigEndian.Uint16(b[next+2:])})
		off = next + 4
	}
	for sec := 0; sec < 3; sec++ {
		for i := 0; i < int(m.Counts[1+sec]); i++ {
			n, next, err := DecodeName(b, off)
			if err != nil {
				return m, err
			}
			if next+10 > len(b) {
				return m, ErrDNSTruncated
			}
			r := DecodedRR{Name: n, Type: binary.BigEndian.Uint16(b[next:]), Class: binary.BigEndian.Uint16(b[next+2:]), TTL: binary.BigEndian.Uint32(b[next+4:]), Section: sec}
			rdlen := int(binary.BigEndian.Uint16(b[next+8:]))
			r.RDOff = next + 10
			if r.RDOff+rdlen > len(b) {
				return m, ErrDNSTruncated
			}
			r.RData = b[r.RDOff : r.RDOff+rdlen]
			switch r.Type {
			case 5, 12, 2:
				t, tend, err := DecodeName(b, r.RDOff)
				if err != nil {
					return m, err
				}
				if tend > r.RDOff+rdlen {
					return m, ErrDNSTruncated
				}
				r.Target = t
			case 1:
				if rdlen != 4 {
					return m, errors.New("dns: A record with RDLENGTH != 4")
				}
			case 28:
				if rdlen != 16 {
					return m, errors.New("dns: AAAA record with RDLENGTH != 16")
				}
			}
			m.RRs = append(m.RRs, r)
			off = r.RDOff + rdlen
		}
	}
	return m, nil
}
