// Package ref holds reference codecs written from the RFCs with the standard
// library only. It must never import github.com/irai/packet.
package ref

// Checksum is the RFC 1071 Internet checksum of b: the one's-complement of the
// one's-complement sum of the big-endian 16-bit words of b, an odd trailing
// byte being padded with a zero byte on the right.
func Checksum(b []byte) uint16 {
	var sum uint64
	for i := 0; i+1 < len(b); i += 2 {
		sum += uint64(b[i])<<8 | uint64(b[i+1])
	}
	if len(b)%2 == 1 {
		sum += uint64(b[len(b)-1]) << 8
	}
	for sum>>16 != 0 {
		sum = sum&0xffff + sum>>16
	}
	return ^uint16(sum)
}

// Sum16 is the folded one's-complement sum (not complemented).
func Sum16(b []byte) uint16 { return ^Checksum(b) }

// OnesAdd adds two 16-bit values in one's-complement arithmetic.
func OnesAdd(a, b uint16) uint16 {
	s := uint32(a) + uint32(b)
	s = s&0xffff + s>>16
	return uint16(s)
}

// Verifies reports whether data that already contains its checksum field sums
// to 0xffff (i.e. Checksum == 0).
func Verifies(b []byte) bool { return Checksum(b) == 0 }
