package ref

import (
	"encoding/binary"
	"errors"
	"fmt"
)

// Strict layer-by-layer decoders used to judge frames the library *emits*
// (C03, C07): every length field must be consistent with the bytes present.

type EthView struct {
	Dst, Src MAC
	Type     uint16
	Payload  []byte
}

func ParseEth(b []byte) (EthView, error) {
	var v EthView
	if len(b) < 14 {
		return v, errors.New("ethernet: shorter than 14 bytes")
	}
	copy(v.Dst[:], b[0:6])
	copy(v.Src[:], b[6:12])
	v.Type = binary.BigEndian.Uint16(b[12:14])
	v.Payload = b[14:]
	return v, nil
}

type IP4View struct {
	IP4Hdr
	Version    int
	Payload    []byte
	ChecksumOK bool
	Trailing   int // bytes after TotalLen
}

func ParseIP4(b []byte) (IP4View, error) {
	var v IP4View
	if len(b) < 20 {
		return v, errors.New("ipv4: shorter than 20 bytes")
	}
	v.Version = int(b[0] >> 4)
	v.IHL = int(b[0]&0x0f) * 4
	v.TOS = b[1]
	v.TotalLen = int(binary.BigEndian.Uint16(b[2:]))
	v.ID = binary.BigEndian.Uint16(b[4:])
	ff := binary.BigEndian.Uint16(b[6:])
	v.Flags, v.FragOff = byte(ff>>13), ff&0x1fff
	v.TTL, v.Proto = b[8], b[9]
	v.Checksum = int(binary.BigEndian.Uint16(b[10:]))
	copy(v.Src[:], b[12:16])
	copy(v.Dst[:], b[16:20])
	if v.Version != 4 {
		return v, fmt.Errorf("ipv4: version %d", v.Version)
	}
	if v.IHL < 20 || v.IHL > len(b) {
		return v, fmt.Errorf("ipv4: IHL %d with %d bytes", v.IHL, len(b))
	}
	if v.TotalLen < v.IHL || v.TotalLen > len(b) {
		return v, fmt.Errorf("ipv4: TotalLen %d, IHL %d, %d bytes present", v.TotalLen, v.IHL, len(b))
	}
	v.Options = b[20:v.IHL]
	v.Payload = b[v.IHL:v.TotalLen]
	v.Trailing = len(b) - v.TotalLen
	v.ChecksumOK = Checksum(b[:v.IHL]) == 0
	return v, nil
}

type IP6View struct {
	IP6Hdr
	Version  int
	Payload  []byte
	Trailing int
}

func ParseIP6(b []byte) (IP6View, error) {
	var v IP6View
	if len(b) < 40 {
		return v, errors.New("ipv6: shorter than 40 bytes")
	}
	v.Version = int(b[0] >> 4)
	v.Class = b[0]<<4 | b[1]>>4
	v.Flow = uint32(b[1]&0x0f)<<16 | uint32(b[2])<<8 | uint32(b[3])
	v.PayloadLen = int(binary.BigEndian.Uint16(b[4:]))
	v.Next, v.HopLimit = b[6], b[7]
	copy(v.Src[:], b[8:24])
	copy(v.Dst[:], b[24:40])
	if v.Version != 6 {
		return v, fmt.Errorf("ipv6: version %d", v.Version)
	}
	if 40+v.PayloadLen > len(b) {
		return v, fmt.Errorf("ipv6: PayloadLen %d with %d bytes after the header", v.PayloadLen, len(b)-40)
	}
	v.Payload = b[40 : 40+v.PayloadLen]
	v.Trailing = len(b) - 40 - v.PayloadLen
	return v, nil
}

type UDPView struct {
	Sport, Dport uint16
	Len          int
	Checksum     uint16
	Payload      []byte
}

// ParseUDP requires the length field to equal the bytes present (the caller passes the IP payload).
func ParseUDP(b []byte) (UDPView, error) {
	var v UDPView
	if len(b) < 8 {
		return v, errors.New("udp: shorter than 8 bytes")
	}
	v.Sport, v.Dport = binary.BigEndian.Uint16(b[0:]), binary.BigEndian.Uint16(b[2:])
	v.Len = int(binary.BigEndian.Uint16(b[4:]))
	v.Checksum = binary.BigEndian.Uint16(b[6:])
	if v.Len != len(b) {
		return v, fmt.Errorf("udp: length field %d, datagram is %d bytes", v.Len, len(b))
	}
	v.Payload = b[8:]
	return v, nil
}

func ParseARP(b []byte) (ARPPkt, error) {
	var p ARPPkt
	if len(b) != 28 {
		return p, fmt.Errorf("arp: %d bytes, want 28", len(b))
	}
	p.HType, p.PType = binary.BigEndian.Uint16(b[0:]), binary.BigEndian.Uint16(b[2:])
	p.HLen, p.PLen = b[4], b[5]
	p.Op = binary.BigEndian.Uint16(b[6:])
	copy(p.SHA[:], b[8:])
	copy(p.SPA[:], b[14:])
	copy(p.THA[:], b[18:])
	copy(p.TPA[:], b[24:])
	return p, nil
}

type ICMPView struct {
	Type, Code byte
	Checksum   uint16
	Rest       [4]byte
	ID, Seq    uint16 // echo interpretation of Rest
	Payload    []byte
	Raw        []byte
}

func ParseICMP(b []byte) (ICMPView, error) {
	var v ICMPView
	if len(b) < 8 {
		return v, errors.New("icmp: shorter than 8 bytes")
	}
	v.Type, v.Code = b[0], b[1]
	v.Checksum = binary.BigEndian.Uint16(b[2:])
	copy(v.Rest[:], b[4:8])
	v.ID, v.Seq = binary.BigEndian.Uint16(b[4:]), binary.BigEndian.Uint16(b[6:])
	v.Payload = b[8:]
	v.Raw = b
	return v, nil
}

// NDPOpt is a raw neighbour-discovery option.
type NDPOpt struct {
	Type byte
	Body []byte // without type and length bytes
}

// ParseNDPOptions decodes a complete option list (RFC 4861 4.6): no zero length, nothing left over.
func ParseNDPOptions(b []byte) ([]NDPOpt, error) {
	var out []NDPOpt
	for len(b) > 0 {
		if len(b) < 2 {
			return out, errors.New("ndp: truncated option header")
		}
		l := int(b[1]) * 8
		if l == 0 {
			return out, errors.New("ndp: option with length 0")
		}
		if l > len(b) {
			return out, errors.New("ndp: option runs past the end")
		}
		out = append(out, NDPOpt{b[0], b[2:l]})
		b = b[l:]
	}
	return out, nil
}
