package ref

import (
	"encoding/binary"
	"net/netip"
)

// Payload identifiers as documented in the README / PayloadID constants.
const (
	PEther         = 1
	P8023          = 2
	PARP           = 3
	PIP4           = 4
	PIP6           = 5
	PICMP4         = 6
	PICMP6         = 7
	PUDP           = 8
	PTCP           = 9
	PDHCP4         = 10
	PDHCP6         = 11
	PDNS           = 12
	PMDNS          = 13
	PSSL           = 14
	PNTP           = 15
	PSSDP          = 16
	PWSDP          = 17
	PNBNS          = 18
	PPlex          = 19
	PUbiquiti      = 20
	PLLMNR         = 21
	PIGMP          = 22
	PEthernetPause = 23
	PRRCP          = 24
	PLLDP          = 25
	P80211r        = 26
	PIEEE1905      = 27
	PSonos         = 28
	P880a          = 29
)

// Decoded is what the reference decoder says about a frame.
type Decoded struct {
	Err        bool // a mandatory header on the selected path is truncated / length-inconsistent
	Lenient    bool // the statement leaves the error verdict open for this frame (IPv6 with trailing bytes)
	PayloadID  int
	SrcMAC     MAC
	DstMAC     MAC
	SrcIP      netip.Addr
	DstIP      netip.Addr
	SrcPort    uint16
	DstPort    uint16
	OffIP4     int // 0 = absent
	OffIP6     int
	OffUDP     int
	OffTCP     int
	OffPayload int // 0 = no payload view
	IPEnd      int // end of the IP datagram as declared by its length field (0 if none)
	Depth      int // how many layers below Ethernet were entered (non-triviality)
}

// UDPClass maps ports to the payload id by the documented precedence.
func UDPClass(sp, dp uint16) int {
	either := func(p uint16) bool { return sp == p || dp == p }
	switch {
	case either(443):
		return PSSL
	case dp == 67 || dp == 68:
		return PDHCP4
	case dp == 546 || dp == 547:
		return PDHCP6
	case either(53):
		return PDNS
	case either(5353):
		return PMDNS
	case either(5355):
		return PLLMNR
	case either(123):
		return PNTP
	case either(1900):
		return PSSDP
	case either(3702):
		return PWSDP
	case dp == 137 || dp == 138:
		return PNBNS
	case dp == 32412 || dp == 32414:
		return PPlex
	case either(10001):
		return PUbiquiti
	}
	return PUDP
}

// Decode classifies an Ethernet frame as the library documents it.
func Decode(b []byte) Decoded {
	var d Decoded
	if len(b) < 14 {
		d.Err = true
		return d
	}
	copy(d.DstMAC[:], b[0:6])
	copy(d.SrcMAC[:], b[6:12])
	et := binary.BigEndian.Uint16(b[12:14])
	hl := 14
	switch et {
	case 0x8100:
		hl = 18
	case 0x88a8:
		hl = 22
	}
	if len(b) < hl { // the tagged header itself is truncated
		d.Err = true
		return d
	}
	d.PayloadID = PEther
	d.OffPayload = hl
	if d.SrcMAC[0]&1 != 0 { // only unicast sources are looked into
		return d
	}
	if et < 1536 {
		d.PayloadID = P8023
		return d
	}
	p := b[hl:]
	var proto byte
	switch et {
	case 0x0800:
		d.PayloadID = PIP4
		d.Depth = 1
		if len(p) < 20 {
			d.Err = true
			return d
		}
		ihl := int(p[0]&0x0f) * 4
		tl := int(binary.BigEndian.Uint16(p[2:4]))
		if ihl < 20 || len(p) < ihl || tl < ihl || tl > len(p) {
			d.Err = true
			return d
		}
		d.OffIP4 = hl
		d.OffPayload = hl + ihl
		d.IPEnd = hl + tl
		proto = p[9]
		d.SrcIP = netip.AddrFrom4(*(*[4]byte)(p[12:16]))
		d.DstIP = netip.AddrFrom4(*(*[4]byte)(p[16:20]))
	case 0x86dd:
		d.PayloadID = PIP6
		d.Depth = 1
		if len(p) < 40 {
			d.Err = true
			return d
		}
		pl := int(binary.BigEndian.Uint16(p[4:6]))
		if 40+pl > len(p) {
			d.Err = true
			return d
		}
		if 40+pl < len(p) {
			d.Lenient = true // trailing bytes after the declared payload: either verdict accepted
		}
		d.OffIP6 = hl
		d.OffPayload = hl + 40
		d.IPEnd = hl + 40 + pl
		proto = p[6]
		d.SrcIP = netip.AddrFrom16(*(*[16]byte)(p[8:24]))
		d.DstIP = netip.AddrFrom16(*(*[16]byte)(p[24:40]))
	case 0x0806:
		d.PayloadID = PARP
		d.Depth = 1
		if len(p) < 28 || p[4] != 6 {
			d.Err = true
		}
		return d
	case 0x8808:
		d.PayloadID = PEthernetPause
		return d
	case 0x8899:
		d.PayloadID = PRRCP
		return d
	case 0x88cc:
		d.PayloadID = PLLDP
		return d
	case 0x890d:
		d.PayloadID = P80211r
		return d
	case 0x893a:
		d.PayloadID = PIEEE1905
		return d
	case 0x6970:
		d.PayloadID = PSonos
		return d
	case 0x880a:
		d.PayloadID = P880a
		return d
	default:
		return d
	}

	q := b[d.OffPayload:]
	switch proto {
	case 17:
		d.PayloadID = PUDP
		d.Depth = 2
		if len(q) < 8 {
			d.Err = true
			return d
		}
		d.OffUDP = d.OffPayload
		d.SrcPort = binary.BigEndian.Uint16(q[0:2])
		d.DstPort = binary.BigEndian.Uint16(q[2:4])
		if c := UDPClass(d.SrcPort, d.DstPort); c != PUDP {
			d.PayloadID = c
			d.OffPayload += 8
			d.Depth = 3
		}
	case 6:
		d.PayloadID = PTCP
		d.Depth = 2
		if len(q) < 20 {
			d.Err = true
			return d
		}
		if doff := int(q[12]>>4) * 4; doff < 20 || doff > len(q) {
			d.Err = true
			return d
		}
		d.OffTCP = d.OffPayload
		d.SrcPort = binary.BigEndian.Uint16(q[0:2])
		d.DstPort = binary.BigEndian.Uint16(q[2:4])
	case 1:
		d.Depth = 2
		if len(q) < 8 {
			d.Err = true
			return d
		}
		d.PayloadID = PICMP4
	case 58:
		d.Depth = 2
		if len(q) < 8 {
			d.Err = true
			return d
		}
		d.PayloadID = PICMP6
	case 2:
		d.Depth = 2
		d.PayloadID = PIGMP
	}
	return d
}
