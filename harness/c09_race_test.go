//go:build verif

package harness

import (
	"bytes"
	"encoding/json"
	"fmt"
	"net/netip"
	"os"
	"os/exec"
	"path/filepath"
	"regexp"
	"runtime"
	"sort"
	"strings"
	"sync"
	"sync/atomic"
	"syscall"
	"testing"
	"time"

	"github.com/irai/packet"
	dhcp4 "github.com/irai/packet/handlers/dhcp4_spoofer"
	"pgregory.net/rapid"
	"verifharness/drv"
	"verifharness/gen"
	"verifharness/ref"
)

// C09 — the session and the handlers under the supported concurrency pattern.
//
// The parent (this binary, no race detector) draws a scenario with rapid and hands it
// to a child: the same test package built with -race, one process per scenario. The
// child plays the scenario (one packet-loop goroutine, a purge goroutine, the spoof
// loops the calls start, API actors, a notification consumer, optionally a concurrent
// Close) in several rounds on fresh sessions and reports recovered panics, deadlocks
// (goroutine dump on join time-out), table invariants at quiescence and goroutines
// that survive Close. The race detector writes its reports to a log the parent reads.

const c09Rule = "scenarios drawn by rapid: a packet loop over 10..60 protocol frames (every C08 frame class, host-tracking churn frames, router advertisements) through Parse -> Process* -> Notify on a reused buffer, a purge goroutine (VerifPurge with advancing time), 1..6 API actors each with 5..40 calls (FindIP, GetHosts + row-locked reads, IPAddrs, FindByMAC, FindMACEntry, PrintTable, Capture, Release, IsCaptured, DHCP offer get/set, ARP/ICMPv6/DHCP StartHunt/StopHunt, IsHunting, MinuteTicker, the handlers' PrintTable, FindRouter, DNSFind/DNSExist), a notification consumer and (1 in 4) a concurrent Close by 1..3 goroutines; the DHCP handler keeps a lease file and the frames include steps of real DHCP dialogues (discover / request / renew / decline / release / foreign offer / init-reboot for another address; every other station sends a client identifier that is not its hardware address); one round in three starts with a full-channel drill (nobody reads Session.C, 0..3 free slots, packet loop and purge released together 200..1000 times: no sender may block); drawn pauses (yield / 20 us / 200 us / 2 ms) and GOMAXPROCS 1..16 perturb the schedule; each scenario runs 3 rounds on fresh sessions in a child process built with -race. oracles: race-detector reports (signature = the two innermost library functions), unrecovered runtime faults (concurrent map access), recovered panics, join time-out = deadlock (goroutine dump), C05 invariants once all goroutines have joined and the purge probes are out, no library goroutine left 10 s after Close. non-trivial = at least two actors and a purge overlapped the packet loop (measured in the child); distinct by hash of the scenario"

type c09Frame struct {
	B     drv.Hex `json:"b"`
	Times int     `json:"n"`
	P     int     `json:"p"`
	// a step of a real DHCP client dialogue (built when it is its turn, from what the server holds for the
	// client at that moment): the lease table then has entries that are offered, acknowledged (lease file
	// rewritten), renewed, declined, released and freed by the ticker while the actors run
	DHCP *c09DHCP `json:"dhcp,omitempty"`
}

// c09Drill: before the scenario of a round, the application is not reading Session.C and the channel is almost full;
// in every iteration the packet loop (stations coming back online -> Notify) and the purge (stations going
// offline) are released together and compete for the last free slots. Notifications may be dropped then, but
// neither sender may block.
type c09Drill struct {
	Iters int `json:"iters"`
	Free  int `json:"free"` // free slots left before each iteration
	N     int `json:"n"`    // stations per iteration (1..3)
}

func c09RunDrill(e *c08Env, d c09Drill, guard func(func()) bool) (stuck bool) {
	var frames [][]byte
	for i := 0; i < d.N && i < 3; i++ {
		frames = append(frames, histFrame(histCfg{}, hOp{K: "f4", Src: mC1 + i, SHA: mC1 + i, IP: i}))
	}
	base := time.Now()
	buf := make([]byte, packet.EthMaxSize)
	for it := 0; it < d.Iters; it++ {
		for len(e.s.C) > cap(e.s.C)-d.Free {
			<-e.s.C
		}
		for len(e.s.C) < cap(e.s.C)-d.Free {
			e.s.C <- packet.Notification{}
		}
		var wg sync.WaitGroup
		gate := make(chan struct{})
		wg.Add(2)
		go func() {
			defer wg.Done()
			<-gate
			guard(func() {
				for _, f := range frames {
					e.process(buf[:copy(buf, f)])
				}
			})
		}()
		go func(it int) {
			defer wg.Done()
			<-gate
			guard(func() { e.s.VerifPurge(base.Add(time.Duration(it+1) * time.Hour)) })
		}(it)
		close(gate)
		done := make(chan struct{})
		go func() { wg.Wait(); close(done) }()
		select {
		case <-done:
		case <-time.After(15 * time.Second):
			return true
		}
	}
	for len(e.s.C) > 0 {
		<-e.s.C
	}
	return false
}

type c09DHCP struct {
	C    int    `json:"c"`    // station (index into the world's clients)
	Step string `json:"step"` // discover | request | renew | decline | release
}

// c09DHCPFrame builds the client's next message; nil if the dialogue has nothing to say at this point.
func c09DHCPFrame(w gen.World, e *c08Env, d c09DHCP) []byte {
	mac := w.Clients[d.C%len(w.Clients)]
	var lease *dhcp4.VerifLease
	for _, l := range e.dhcp.VerifLeases() {
		if bytes.Equal(l.MAC, mac[:]) {
			l := l
			lease = &l
		}
	}
	m := ref.DHCPMsg{Op: 1, HType: 1, HLen: 6, CHAddr: mac, XID: [4]byte{0xc9, byte(d.C), 0, 1}}
	src, dst := [4]byte{}, [4]byte{255, 255, 255, 255}
	dstMAC := ref.MAC{0xff, 0xff, 0xff, 0xff, 0xff, 0xff}
	our := w.HostIP.AsSlice()
	switch d.Step {
	case "foreign-offer": // the LAN's own DHCP server answers the station: seen on the wire (67 -> 68), our handler forges a DECLINE
		m.Op = 2
		m.YIAddr = [4]byte{192, 168, 0, byte(200 + d.C)}
		m.Options = append(m.Options, ref.DHCPOpt{Code: 53, Data: []byte{2}}, ref.DHCPOpt{Code: 54, Data: w.RouterIP.AsSlice()}, ref.DHCPOpt{Code: 51, Data: []byte{0, 0, 14, 16}},
			ref.DHCPOpt{Code: 61, Data: append([]byte{1}, mac[:]...)})
		return ref.Eth(ref.MAC{0xff, 0xff, 0xff, 0xff, 0xff, 0xff}, w.RouterMAC, 0x0800, ref.IP4(ref.IP4Hdr{TotalLen: -1, TTL: 64, Proto: 17, Checksum: -1, Src: w.RouterIP.As4(), Dst: [4]byte{255, 255, 255, 255}}, ref.UDP(67, 68, -1, 0, m.Encode(true))))
	case "discover":
		m.Options = append(m.Options, ref.DHCPOpt{Code: 53, Data: []byte{1}})
	case "request": // selecting: the address the server offered
		if lease == nil || !lease.Offer.IsValid() {
			return nil
		}
		m.Options = append(m.Options, ref.DHCPOpt{Code: 53, Data: []byte{3}}, ref.DHCPOpt{Code: 54, Data: our}, ref.DHCPOpt{Code: 50, Data: lease.Offer.AsSlice()})
	case "renew", "decline", "release":
		if lease == nil || !lease.IP.IsValid() || !lease.IP.Is4() {
			return nil
		}
		switch d.Step {
		case "renew":
			m.Options = append(m.Options, ref.DHCPOpt{Code: 53, Data: []byte{3}})
			m.CIAddr, src = lease.IP.As4(), lease.IP.As4()
			dst, dstMAC = w.HostIP.As4(), w.HostMAC
		case "decline":
			m.Options = append(m.Options, ref.DHCPOpt{Code: 53, Data: []byte{4}}, ref.DHCPOpt{Code: 54, Data: our}, ref.DHCPOpt{Code: 50, Data: lease.IP.AsSlice()})
		case "release":
			m.Options = append(m.Options, ref.DHCPOpt{Code: 53, Data: []byte{7}}, ref.DHCPOpt{Code: 54, Data: our})
			m.CIAddr, src = lease.IP.As4(), lease.IP.As4()
			dst, dstMAC = w.HostIP.As4(), w.HostMAC
		}
	case "reboot-other": // INIT-REBOOT for an address the server never gave this client: NAK, and in secondary mode a forged DECLINE goroutine
		m.Options = append(m.Options, ref.DHCPOpt{Code: 53, Data: []byte{3}}, ref.DHCPOpt{Code: 50, Data: []byte{192, 168, 0, byte(240 + d.C%8)}})
	default:
		return nil
	}
	if d.C%2 == 1 { // every other station sends a client identifier that is not its hardware address
		m.Options = append(m.Options, ref.DHCPOpt{Code: 61, Data: []byte(fmt.Sprintf("\x00station-id-%d", d.C))})
	}
	m.Options = append(m.Options, ref.DHCPOpt{Code: 12, Data: []byte(fmt.Sprintf("station-%d", d.C))})
	return ref.Eth(dstMAC, mac, 0x0800, ref.IP4(ref.IP4Hdr{TotalLen: -1, TTL: 64, Proto: 17, Checksum: -1, Src: src, Dst: dst}, ref.UDP(68, 67, -1, 0, m.Encode(true))))
}

type c09Call struct {
	K string `json:"k"`
	M int    `json:"m"`
	I int    `json:"i"`
	P int    `json:"p"`
}

type c09Case struct {
	Procs     int         `json:"procs"`
	Rounds    int         `json:"rounds"`
	Frames    []c09Frame  `json:"frames"`
	Actors    [][]c09Call `json:"actors"`
	Purges    int         `json:"purges"`
	PurgeStep int         `json:"purge_step"` // 0: 30 s, 1: 3 min, 2: 40 min
	PurgeP    int         `json:"purge_p"`
	CloseAt   int         `json:"close_at"` // -1: Close after everything joined; k: Close runs concurrently once k frames were processed
	Closers   int         `json:"closers"`  // how many goroutines call the Close methods at that moment (Close is in the statement's API list)
	Drill     *c09Drill   `json:"drill,omitempty"`
	Crowd     int         `json:"crowd,omitempty"`  // stations already tracked when the scenario starts (a big LAN: tables of 100+ entries)
	Linger    bool        `json:"linger,omitempty"` // the last round stays up for 3 s before Close: loops that rearm timers go through a few cycles
}

type c09Result struct {
	Done        bool     `json:"done"`
	Panics      []string `json:"panics"` // "signature\x00message"
	Deadlock    string   `json:"deadlock"`
	Invariant   string   `json:"invariant"`
	Leaks       []string `json:"leaks"`
	Overlapped  int      `json:"overlapped"` // rounds in which >= 2 actors and the purge ran while the loop was running
	FramesDone  int      `json:"frames_done"`
	CallsDone   int      `json:"calls_done"`
	ClosedEarly int      `json:"closed_early"`
	DHCPSteps   int      `json:"dhcp_steps"` // messages of real DHCP dialogues delivered
	Drills      int      `json:"drills"`     // rounds that began with the full-channel drill
}

var c09CallKinds = []string{"findip", "findip", "gethosts", "gethosts", "ipaddrs", "findbymac", "findmac", "printtable", "capture", "release", "iscaptured", "offer-get", "offer-set",
	"arp-start", "arp-stop", "arp-ishunting", "icmp6-start", "icmp6-stop", "dhcp-start", "dhcp-stop", "dhcp-tick", "arp-printtable", "dhcp-printtable", "icmp6-printtable", "icmp6-findrouter", "dns-find", "dns-exist", "dns-printtable"}

func c09Pause(p int) {
	switch p {
	case 1:
		runtime.Gosched()
	case 2:
		time.Sleep(20 * time.Microsecond)
	case 3:
		time.Sleep(200 * time.Microsecond)
	case 4:
		time.Sleep(2 * time.Millisecond)
	}
}

func c09MAC(w gen.World, m int) ref.MAC {
	all := append(append([]ref.MAC{}, w.Clients...), w.HostMAC, w.RouterMAC, ref.MAC{0x00, 0x0b, 0x0c, 0x0d, 0x0e, 0x0f})
	if m >= len(all) { // a station of the crowd (c09Case.Crowd): stations 0, 1, 2, ... of a big LAN
		return c09CrowdMAC(m - len(all))
	}
	return all[m%len(all)]
}

func c09CrowdMAC(i int) ref.MAC { return ref.MAC{0x00, 0x0c, 0x0c, 0x00, byte(i >> 8), byte(i)} }

func c09IP(w gen.World, i int) netip.Addr {
	switch {
	case i < 8:
		return netip.AddrFrom4([4]byte{192, 168, 0, byte(2 + i)})
	case i == 8:
		return w.HostIP
	case i == 9:
		return w.RouterIP
	}
	a := netip.MustParseAddr("fe80::1").As16()
	a[15] = byte(1 + i%9)
	return netip.AddrFrom16(a)
}

var c09Sink sinkT

type sinkT struct{ v atomic.Int64 }

func (s *sinkT) add(n int) { s.v.Add(int64(n)) }

func c09ReadHost(h *packet.Host) {
	if h == nil {
		return
	}
	h.MACEntry.Row.RLock() // the documented way to read a host record
	if h.Online {
		c09Sink.add(1)
	}
	c09Sink.add(len(h.Addr.MAC) + len(h.DHCP4Name.Name) + len(h.MDNSName.Name) + int(h.HuntStage) + h.LastSeen.Nanosecond())
	c09Sink.add(len(h.String()))
	h.MACEntry.Row.RUnlock()
}

func (e *c08Env) c09Call(w gen.World, c c09Call, now time.Time) {
	mac, ip := hw(c09MAC(w, c.M)), c09IP(w, c.I)
	ip4 := c09IP(w, c.I%10)
	switch c.K {
	case "findip":
		c09ReadHost(e.s.FindIP(ip))
	case "gethosts":
		for _, h := range e.s.GetHosts() {
			c09ReadHost(h)
		}
	case "ipaddrs":
		c09Sink.add(len(e.s.IPAddrs(mac)))
	case "findbymac":
		c09Sink.add(len(e.s.FindByMAC(mac)))
	case "findmac":
		if me := e.s.FindMACEntry(mac); me != nil {
			me.Row.RLock()
			c09Sink.add(len(me.HostList) + len(me.MAC))
			if me.Online || me.Captured || me.IsRouter {
				c09Sink.add(1)
			}
			c09Sink.add(len(me.String()))
			me.Row.RUnlock()
		}
	case "printtable":
		e.s.PrintTable()
	case "capture":
		e.s.Capture(mac)
	case "release":
		e.s.Release(mac)
	case "iscaptured":
		if e.s.IsCaptured(mac) {
			c09Sink.add(1)
		}
	case "offer-get":
		if e.s.DHCPv4IPOffer(mac).IsValid() {
			c09Sink.add(1)
		}
	case "offer-set":
		e.s.SetDHCPv4IPOffer(mac, ip4, packet.NameEntry{Type: "dhcp", Name: "n"})
	case "arp-start":
		e.arp.StartHunt(packet.Addr{MAC: mac, IP: ip4})
	case "arp-stop":
		e.arp.StopHunt(packet.Addr{MAC: mac, IP: ip4})
	case "arp-ishunting":
		if e.arp.IsHunting(ip4) {
			c09Sink.add(1)
		}
	case "icmp6-start":
		e.icmp6.StartHunt(packet.Addr{MAC: mac, IP: c09IP(w, 10+c.I)})
	case "icmp6-stop":
		e.icmp6.StopHunt(packet.Addr{MAC: mac, IP: c09IP(w, 10+c.I)})
	case "dhcp-start":
		e.dhcp.StartHunt(packet.Addr{MAC: mac, IP: ip4})
	case "dhcp-stop":
		e.dhcp.StopHunt(packet.Addr{MAC: mac, IP: ip4})
	case "dhcp-tick":
		e.dhcp.MinuteTicker(now.Add(time.Duration(c.I) * 45 * time.Minute)) // leases last 4 h, offers seconds
	case "arp-printtable":
		e.arp.PrintTable()
	case "dhcp-printtable":
		e.dhcp.PrintTable()
	case "icmp6-printtable":
		e.icmp6.PrintTable()
	case "icmp6-findrouter":
		r := e.icmp6.FindRouter(c14Routers[c.I%2].lla)
		c09Sink.add(len(r.Prefixes) + len(r.Addr.MAC))
	case "dns-find":
		c09Sink.add(len(e.dns.DNSFind([]string{"example.com", "host.local", "a.b.c"}[c.I%3]).Name))
	case "dns-exist":
		if e.dns.DNSExist(ip4) {
			c09Sink.add(1)
		}
	case "dns-printtable":
		e.dns.PrintDNSTable()
	}
}

// process is the packet loop body of the examples without the harness's own draining of C.
func (e *c08Env) process(b []byte) {
	frame, perr := e.s.Parse(b)
	if perr != nil {
		return
	}
	switch frame.PayloadID {
	case packet.PayloadARP:
		e.arp.ProcessPacket(frame)
	case packet.PayloadDHCP4:
		e.dhcp.ProcessPacket(frame)
	case packet.PayloadICMP4:
		e.icmp4.ProcessPacket(frame)
	case packet.PayloadICMP6:
		e.icmp6.ProcessPacket(frame)
	case packet.PayloadDNS:
		e.dns.ProcessDNS(frame)
	case packet.PayloadMDNS, packet.PayloadLLMNR:
		ip4, ip6, _ := e.dns.ProcessMDNS(frame)
		if frame.Host != nil {
			for _, v := range append(ip4, ip6...) {
				frame.Host.UpdateMDNSName(v.NameEntry)
			}
		}
	case packet.PayloadNBNS:
		n, _ := e.dns.ProcessNBNS(frame.Host, frame.Ether(), frame.Payload())
		if frame.Host != nil && n.Name != "" {
			frame.Host.UpdateNBNSName(n)
		}
	case packet.PayloadSSDP:
		n, _, _ := e.dns.ProcessSSDP(frame.Host, frame.Ether(), frame.Payload())
		if frame.Host != nil {
			frame.Host.UpdateSSDPName(n)
		}
	case packet.Payload8023:
		packet.Process8023Frame(frame, 14)
	}
	e.s.Notify(frame)
}

// libraryGoroutines lists goroutines that run library code and were not started by the harness.
func libraryGoroutines() (out []string) {
	st := string(stackBuf[:runtime.Stack(stackBuf, true)])
	for _, g := range strings.Split(st, "\n\n") {
		if !strings.Contains(g, "github.com/irai/packet") || strings.Contains(g, "verifharness") {
			continue
		}
		out = append(out, g)
	}
	return
}

var reFrameArgs = regexp.MustCompile(`\((\)|0x|\{|\.\.\.|[0-9?]).*$`)

// generic helpers (copying, formatting, option decoding, set primitives): a race is named by their caller
var reHelper = regexp.MustCompile(`^fastlog\.|^Copy(MAC|IP|Bytes)$|\.FastLog$|\.String$|^toNotification$|\.unmarshal$|^newParseOptions$|^\(\*AddrList\)\.|\.func[0-9.]+$|^\(\*MACEntry\)\.(un)?link$|^\(\*MACTable\)\.|^\(\*Session\)\.(findIP|deleteHost|printHostTable|printMACTable)$`)

// topLibFunc returns the innermost library function of a stack given as text lines that is not a generic helper.
func topLibFunc(lines []string) string {
	first := ""
	for _, l := range lines {
		l = strings.TrimSpace(l)
		if strings.HasPrefix(l, "github.com/irai/packet") {
			l = reFrameArgs.ReplaceAllString(l, "")
			l = strings.TrimPrefix(l, "github.com/irai/packet")
			l = strings.TrimLeft(l, "/.")
			if first == "" {
				first = l
			}
			if !reHelper.MatchString(l) {
				return l
			}
		}
	}
	return first
}

func c09ChildRun(c c09Case) (res c09Result) {
	w := gen.DefaultWorld()
	if c.Procs > 0 {
		runtime.GOMAXPROCS(c.Procs)
	}
	var mu sync.Mutex
	addPanic := func(sig, msg string) {
		mu.Lock()
		res.Panics = append(res.Panics, sig+"\x00"+msg)
		mu.Unlock()
	}
	guard := func(f func()) bool {
		if p, sig, st := drv.Catch(f); p != nil {
			addPanic(sig, fmt.Sprintf("%v\n%s", p, st))
			return false
		}
		return true
	}
	steps := []time.Duration{30 * time.Second, 3 * time.Minute, 40 * time.Minute}
	leaseDir, _ := os.MkdirTemp("", "c09-")
	defer os.RemoveAll(leaseDir)
	var envs []*c08Env
	for round := 0; round < c.Rounds && res.Deadlock == "" && len(res.Panics) == 0; round++ {
		// the DHCP handler persists its leases (rewritten after every ACK) as the default configuration does
		e := newC08EnvFile(filepath.Join(leaseDir, fmt.Sprintf("leases-%d.yaml", round)))
		if round%2 == 1 { // as the only server of the LAN every station is served; as secondary server the captured ones
			e.dhcp.SetMode(dhcp4.ModePrimaryServer)
		}
		envs = append(envs, e)
		now := time.Now()
		start := make(chan struct{})
		closeNow := make(chan struct{})
		var wg sync.WaitGroup
		var loopRunning, loopEnded bool
		var state sync.Mutex
		overlapActors, overlapPurge := 0, false
		markOverlap := func(actor bool) {
			state.Lock()
			if loopRunning && !loopEnded {
				if actor {
					overlapActors++
				} else {
					overlapPurge = true
				}
			}
			state.Unlock()
		}
		if c.Drill != nil {
			if c09RunDrill(e, *c.Drill, guard) {
				st := string(stackBuf[:runtime.Stack(stackBuf, true)])
				var stuck []string
				for _, g := range strings.Split(st, "\n\n") {
					if strings.Contains(g, "github.com/irai/packet") && strings.Contains(g, "c09") {
						if f := topLibFunc(strings.Split(g, "\n")[1:]); f != "" {
							stuck = append(stuck, f)
						}
					}
				}
				sort.Strings(stuck)
				mu.Lock()
				res.Deadlock = strings.Join(stuck, " | ") + "\x00" + "with an almost full notification channel that nobody reads:\n" + st
				out := res
				out.Panics = append([]string(nil), res.Panics...)
				mu.Unlock()
				return out
			}
			waitNoGoroutine(5*time.Second, "packet.(*Session).purge.func")
			mu.Lock()
			res.Drills++
			mu.Unlock()
		}
		consumerDone := make(chan struct{})
		go func() { // the application's notification consumer
			defer close(consumerDone)
			for n := range e.s.C {
				c09Sink.add(len(n.Addr.MAC) + len(n.DHCP4Name.Name))
			}
		}()
		wg.Add(1)
		go func() { // the packet loop
			defer wg.Done()
			<-start
			state.Lock()
			loopRunning = true
			state.Unlock()
			buf := make([]byte, packet.EthMaxSize)
			closed := false
			for i, f := range c.Frames {
				if i == c.CloseAt {
					close(closeNow)
					closed = true
				}
				n := copy(buf, f.B)
				if f.DHCP != nil {
					var b []byte
					if !guard(func() { b = c09DHCPFrame(w, e, *f.DHCP) }) {
						b = nil
					}
					n = copy(buf, b)
					if b != nil {
						mu.Lock()
						res.DHCPSteps++
						mu.Unlock()
					}
				}
				for k := 0; k < f.Times && n > 0; k++ {
					if !guard(func() { e.process(buf[:n]) }) {
						state.Lock()
						loopEnded = true
						state.Unlock()
						if !closed && c.CloseAt >= 0 {
							close(closeNow)
						}
						return
					}
				}
				mu.Lock()
				res.FramesDone++
				mu.Unlock()
				c09Pause(f.P)
			}
			state.Lock()
			loopEnded = true
			state.Unlock()
			if !closed && c.CloseAt >= 0 {
				close(closeNow)
			}
		}()
		wg.Add(1)
		go func() { // the minute goroutine's purge
			defer wg.Done()
			<-start
			for i := 0; i < c.Purges; i++ {
				markOverlap(false)
				if !guard(func() { e.s.VerifPurge(now.Add(time.Duration(i+1) * steps[c.PurgeStep%3])) }) {
					return
				}
				c09Pause(c.PurgeP)
			}
		}()
		for _, calls := range c.Actors {
			wg.Add(1)
			go func(calls []c09Call) {
				defer wg.Done()
				<-start
				marked := false
				for _, cl := range calls {
					if !marked {
						state.Lock()
						if loopRunning && !loopEnded {
							overlapActors++
							marked = true
						}
						state.Unlock()
					}
					if !guard(func() { e.c09Call(w, cl, now) }) {
						return
					}
					mu.Lock()
					res.CallsDone++
					mu.Unlock()
					c09Pause(cl.P)
				}
			}(calls)
		}
		closedEarly := false
		if c.CloseAt >= 0 {
			closedEarly = true
			wg.Add(1)
			go func() {
				defer wg.Done()
				<-closeNow
				var cw sync.WaitGroup
				for k := 0; k < max(1, c.Closers); k++ {
					cw.Add(1)
					go func(k int) {
						defer cw.Done()
						guard(func() {
							if k%2 == 1 { // another order for every other closer
								e.s.Close()
							}
							e.arp.Close()
							e.icmp6.Close()
							e.dhcp.Close()
							e.dns.Close()
							e.s.Close()
						})
					}(k)
				}
				cw.Wait()
			}()
		}
		if c.Crowd > 0 { // seen once each, before anything runs concurrently
			cb := make([]byte, packet.EthMaxSize)
			for i := 0; i < c.Crowd; i++ {
				f := ref.Eth(w.RouterMAC, c09CrowdMAC(i), 0x0800, ref.IP4(ref.IP4Hdr{TotalLen: -1, TTL: 64, Proto: 17, Checksum: -1, Src: [4]byte{192, 168, 0, byte(20 + i%200)}, Dst: w.RouterIP.As4()}, ref.UDP(40000, 9999, -1, 0, []byte("x"))))
				guard(func() { e.process(cb[:copy(cb, f)]) })
			}
		}
		close(start)
		joined := make(chan struct{})
		go func() { wg.Wait(); close(joined) }()
		select {
		case <-joined:
		case <-time.After(30 * time.Second):
			st := string(stackBuf[:runtime.Stack(stackBuf, true)])
			var stuck []string
			for _, g := range strings.Split(st, "\n\n") {
				if strings.Contains(g, "github.com/irai/packet") && strings.Contains(g, "c09") {
					if f := topLibFunc(strings.Split(g, "\n")[1:]); f != "" {
						stuck = append(stuck, f)
					}
				}
			}
			sort.Strings(stuck)
			mu.Lock() // the stuck goroutines' siblings may still be counting
			res.Deadlock = strings.Join(stuck, " | ") + "\x00" + st
			out := res
			out.Panics = append([]string(nil), res.Panics...)
			mu.Unlock()
			return out
		}
		if overlapActors >= 2 && overlapPurge {
			res.Overlapped++
		}
		// quiescence: everything joined; the purge's probe goroutines must be out before the tables are read
		waitNoGoroutine(5*time.Second, "packet.(*Session).purge.func")
		if !closedEarly && c.Linger && round == c.Rounds-1 {
			time.Sleep(3 * time.Second)
		}
		if !closedEarly {
			if sig, msg := checkTableInvariants(e.s); sig != "" {
				res.Invariant = sig + "\x00" + msg
				return
			}
			for k := 0; k < max(1, c.Closers); k++ { // Close may be called by several goroutines
				go func() {
					guard(func() {
						e.arp.Close()
						e.icmp6.Close()
						e.dhcp.Close()
						e.dns.Close()
						e.s.Close() // sleeps one second
					})
				}()
			}
		} else {
			res.ClosedEarly++
		}
		select {
		case <-consumerDone:
		case <-time.After(5 * time.Second):
			res.Leaks = append(res.Leaks, "notification channel not closed 5 s after Close")
		}
	}
	// Close stops all background goroutines: nothing of the library may be left running
	deadline := time.Now().Add(10 * time.Second)
	for {
		gs := libraryGoroutines()
		if len(gs) == 0 {
			break
		}
		if time.Now().After(deadline) {
			seen := map[string]bool{}
			for _, g := range gs {
				f := topLibFunc(strings.Split(g, "\n")[1:])
				if !seen[f] {
					seen[f] = true
					res.Leaks = append(res.Leaks, f+"\x00"+g)
				}
			}
			break
		}
		time.Sleep(50 * time.Millisecond)
	}
	res.Done = true
	return
}

// TestC09Child is the entry point of the -race child process.
func TestC09Child(t *testing.T) {
	cf := os.Getenv("VERIF_C09_CASE")
	if cf == "" {
		t.Skip("child entry point")
	}
	drv.Quiet()
	b, err := os.ReadFile(cf)
	if err != nil {
		t.Fatal(err)
	}
	var c c09Case
	if err := json.Unmarshal(b, &c); err != nil {
		t.Fatal(err)
	}
	res := c09ChildRun(c)
	out, _ := json.Marshal(res)
	os.WriteFile(os.Getenv("VERIF_C09_RESULT"), out, 0o644)
}

// ---- parent

type raceReport struct {
	sig         string
	text        string
	harnessOnly bool // no library frame anywhere in the report: a race of the harness with itself, not a verdict
}

var reRaceHead = regexp.MustCompile(`^(Write|Read|Previous write|Previous read|Atomic write|Atomic read|Previous atomic write|Previous atomic read) at 0x[0-9a-f]+ by `)

// parseRaceLog splits a race-detector log into reports and names each by the innermost
// library function of its two accesses.
func parseRaceLog(txt string) (out []raceReport) {
	for _, rep := range strings.Split(txt, "==================") {
		if !strings.Contains(rep, "WARNING: DATA RACE") {
			continue
		}
		lines := strings.Split(rep, "\n")
		var fns []string
		for i, l := range lines {
			if reRaceHead.MatchString(strings.TrimSpace(l)) {
				var stack []string
				for _, x := range lines[i+1:] {
					if strings.TrimSpace(x) == "" {
						break
					}
					stack = append(stack, x)
				}
				f := topLibFunc(stack)
				if f == "" {
					f = "(outside the library)"
				}
				fns = append(fns, f)
			}
		}
		sort.Strings(fns)
		out = append(out, raceReport{sig: "race:" + strings.Join(fns, " <-> "), text: strings.TrimSpace(rep), harnessOnly: !strings.Contains(rep, "github.com/irai/packet")})
	}
	return
}

// fatalSignature names an unrecovered runtime fault of the child ("fatal error: concurrent map writes").
func fatalSignature(log string) (sig, text string) {
	i := strings.Index(log, "fatal error: ")
	if i < 0 {
		return "", ""
	}
	rest := log[i:]
	first := strings.SplitN(rest, "\n", 2)[0]
	// the faulting goroutine is the first one printed
	blocks := strings.Split(rest, "\n\n")
	fn := ""
	if len(blocks) > 1 {
		fn = topLibFunc(strings.Split(blocks[1], "\n")[1:])
	}
	if len(rest) > 6000 {
		rest = rest[:6000]
	}
	return "fatal:" + strings.TrimPrefix(first, "fatal error: ") + "@" + fn, rest
}

func truncate(s string, n int) string {
	if len(s) > n {
		return s[:n] + "\n..."
	}
	return s
}

var c09Collect = os.Getenv("VERIF_C09_COLLECT") // development: append every signature to this file, never fail

func c09Run(tb drv.TB, rec *drv.Rec, sub string, c c09Case) {
	rec.Eval()
	drv.Begin("C09", sub, 'J', mustJSON(c), 240*time.Second)
	defer drv.End()
	bin := os.Getenv("VERIF_RACE_BIN")
	if bin == "" {
		tb.Fatalf("VERIF_RACE_BIN is not set (the driver builds the -race harness for C09)")
	}
	dir, err := os.MkdirTemp(drv.OutDir, "c09-")
	if err != nil {
		tb.Fatalf("%v", err)
	}
	defer os.RemoveAll(dir)
	cf, rf := filepath.Join(dir, "case.json"), filepath.Join(dir, "result.json")
	os.WriteFile(cf, mustJSON(c), 0o644)
	cmd := exec.Command(bin, "-test.run", "^TestC09Child$", "-test.count=1", "-test.timeout", "200s")
	cmd.Env = append(os.Environ(), "VERIF_C09_CASE="+cf, "VERIF_C09_RESULT="+rf, "VERIF_OUT="+filepath.Join(dir, "out"), "VERIF_REPLAY=",
		"GORACE=halt_on_error=0 history_size=3 log_path="+filepath.Join(dir, "race"))
	logf, _ := os.Create(filepath.Join(dir, "log"))
	cmd.Stdout, cmd.Stderr = logf, logf
	cmd.SysProcAttr = &syscall.SysProcAttr{Setpgid: true}
	if err := cmd.Start(); err != nil {
		tb.Fatalf("cannot start the race child: %v", err)
	}
	done := make(chan error, 1)
	go func() { done <- cmd.Wait() }()
	timedOut := false
	select {
	case <-done:
	case <-time.After(180 * time.Second):
		timedOut = true
		syscall.Kill(-cmd.Process.Pid, syscall.SIGQUIT)
		select {
		case <-done:
		case <-time.After(10 * time.Second):
			syscall.Kill(-cmd.Process.Pid, syscall.SIGKILL)
			<-done
		}
	}
	logf.Close()
	logb, _ := os.ReadFile(filepath.Join(dir, "log"))
	var findings []raceReport
	races, _ := filepath.Glob(filepath.Join(dir, "race.*"))
	for _, f := range races {
		b, _ := os.ReadFile(f)
		for _, r := range parseRaceLog(string(b)) {
			if r.harnessOnly {
				rec.Class("ignored: race report without any library frame (harness)")
				rec.Note("harness-only race report: " + truncate(r.text, 600))
				continue
			}
			findings = append(findings, r)
		}
	}
	var res c09Result
	if b, err := os.ReadFile(rf); err == nil {
		json.Unmarshal(b, &res)
	}
	split := func(s string) (string, string) {
		k := strings.IndexByte(s, 0)
		if k < 0 {
			return s, s
		}
		return s[:k], s[k+1:]
	}
	for _, p := range res.Panics {
		sig, msg := split(p)
		findings = append(findings, raceReport{sig: sig, text: "panic in the child: " + msg})
	}
	if res.Deadlock != "" {
		sig, msg := split(res.Deadlock)
		findings = append(findings, raceReport{sig: "deadlock:" + sig, text: "goroutines did not join within 30 s; dump:\n" + truncate(msg, 8000)})
	}
	if res.Invariant != "" {
		sig, msg := split(res.Invariant)
		findings = append(findings, raceReport{sig: sig + "@quiescence", text: msg})
	}
	for _, l := range res.Leaks {
		sig, msg := split(l)
		findings = append(findings, raceReport{sig: "goroutine-leak:" + sig, text: "still running 10 s after Close:\n" + truncate(msg, 3000)})
	}
	if !res.Done && res.Deadlock == "" && res.Invariant == "" {
		if sig, text := fatalSignature(string(logb)); sig != "" {
			findings = append(findings, raceReport{sig: sig, text: text})
		} else if timedOut {
			findings = append(findings, raceReport{sig: "c09-child-timeout", text: "the child did not finish within 180 s\n" + truncate(string(logb), 6000)})
		} else if len(res.Panics) == 0 {
			// the child died for a reason the harness does not understand: not a verdict
			rec.Class("inconclusive: child ended without a result")
			rec.Note("child without result: " + truncate(string(logb), 400))
			return
		}
	}
	rec.Class(fmt.Sprintf("procs=%d", c.Procs))
	if c.CloseAt >= 0 {
		rec.Class("concurrent Close")
	}
	rec.Add("child rounds", int64(c.Rounds))
	rec.Add("frames processed in children", int64(res.FramesDone))
	rec.Add("API calls made in children", int64(res.CallsDone))
	rec.Add("race reports read", int64(len(findings)))
	if c09Collect != "" {
		f, _ := os.OpenFile(c09Collect, os.O_APPEND|os.O_CREATE|os.O_WRONLY, 0o644)
		for _, fd := range findings {
			b, _ := json.Marshal(map[string]string{"sig": fd.sig, "text": truncate(fd.text, 5000)})
			f.Write(append(b, '\n'))
		}
		f.Close()
	} else {
		// listed findings first (counted), then the first unlisted one fails the case
		sort.SliceStable(findings, func(i, j int) bool { return rec.IsKnown(findings[i].sig) && !rec.IsKnown(findings[j].sig) })
		seen := map[string]bool{}
		for _, fd := range findings {
			if seen[fd.sig] {
				continue
			}
			seen[fd.sig] = true
			if !rec.Violation(tb, sub, fd.sig, c, "%s", truncate(fd.text, 6000)) {
				return
			}
		}
	}
	if res.Overlapped > 0 {
		rec.NonTrivial(drv.HashJSON(c), func() interface{} {
			return map[string]interface{}{"procs": c.Procs, "frames": len(c.Frames), "actors": len(c.Actors), "purges": c.Purges, "close_at": c.CloseAt, "overlapped_rounds": res.Overlapped}
		})
	}
}

func genC09(t *rapid.T) c09Case {
	w := gen.DefaultWorld()
	c := c09Case{Procs: rapid.SampledFrom([]int{1, 2, 2, 4, 4, 8, 16}).Draw(t, "procs"), Rounds: 3, Purges: rapid.IntRange(1, 6).Draw(t, "purges"),
		PurgeStep: rapid.IntRange(0, 2).Draw(t, "purgeStep"), PurgeP: rapid.IntRange(0, 4).Draw(t, "purgeP"), CloseAt: -1, Closers: rapid.SampledFrom([]int{1, 1, 2, 3}).Draw(t, "closers")}
	hcfg := histCfg{}
	for i := rapid.IntRange(10, 60).Draw(t, "nframes"); i > 0; i-- {
		var f c09Frame
		switch rapid.IntRange(0, 6).Draw(t, "frameSource") {
		case 6: // a step of a DHCP dialogue; discover + request pairs make leases that later steps and the ticker work on
			d := c09DHCP{C: rapid.IntRange(0, 3).Draw(t, "dhcpClient"), Step: rapid.SampledFrom([]string{"discover", "discover", "request", "request", "renew", "renew", "decline", "release", "foreign-offer", "foreign-offer", "reboot-other", "reboot-other"}).Draw(t, "dhcpStep")}
			if d.Step == "discover" && rapid.IntRange(0, 2).Draw(t, "thenRequest") != 0 {
				c.Frames = append(c.Frames, c09Frame{Times: 1, DHCP: &c09DHCP{C: d.C, Step: "discover"}})
				d.Step = "request"
			}
			f = c09Frame{Times: 1, DHCP: &d}
		case 0, 1: // host-tracking churn: addresses moving between MACs
			op := hOp{K: rapid.SampledFrom([]string{"f4", "f4", "f6", "arp", "dhcp"}).Draw(t, "hk"), Src: rapid.IntRange(mC1, mC5).Draw(t, "src"), IP: rapid.IntRange(0, 2).Draw(t, "ip"), New: rapid.IntRange(0, 2).Draw(t, "new")}
			op.SHA = op.Src
			if op.K == "f6" {
				op.IP = rapid.IntRange(0, 3).Draw(t, "ip6")
			}
			f = c09Frame{B: histFrame(hcfg, op), Times: 1}
		case 2: // router advertisement (wakes the ICMPv6 spoof loops)
			f = c09Frame{B: genC14RA(t, rapid.IntRange(0, 1).Draw(t, "router")).frame(w), Times: 4}
		default:
			b, n, _ := c08Frame(t, w)
			f = c09Frame{B: b, Times: n}
		}
		f.P = rapid.SampledFrom([]int{0, 0, 1, 2, 3}).Draw(t, "fp")
		c.Frames = append(c.Frames, f)
	}
	for a := rapid.IntRange(1, 6).Draw(t, "nactors"); a > 0; a-- {
		var calls []c09Call
		for k := rapid.IntRange(5, 40).Draw(t, "ncalls"); k > 0; k-- {
			calls = append(calls, c09Call{K: rapid.SampledFrom(c09CallKinds).Draw(t, "k"), M: rapid.IntRange(0, 6).Draw(t, "m"), I: rapid.IntRange(0, 12).Draw(t, "i"), P: rapid.SampledFrom([]int{0, 0, 1, 2, 3, 4}).Draw(t, "p")})
		}
		c.Actors = append(c.Actors, calls)
	}
	if rapid.IntRange(0, 3).Draw(t, "closeMid") == 0 {
		c.CloseAt = rapid.IntRange(0, len(c.Frames)-1).Draw(t, "closeAt")
	}
	if rapid.IntRange(0, 3).Draw(t, "crowd") == 0 {
		c.Crowd = rapid.SampledFrom([]int{70, 100, 150}).Draw(t, "crowdN")
		for a := range c.Actors { // some of the actors' calls are about stations deep in the tables
			for k := range c.Actors[a] {
				if rapid.IntRange(0, 2).Draw(t, "crowdCall") == 0 {
					c.Actors[a][k].M = 7 + rapid.IntRange(0, c.Crowd-1).Draw(t, "crowdM")
				}
			}
		}
	}
	c.Linger = rapid.IntRange(0, 3).Draw(t, "linger") == 0
	if rapid.IntRange(0, 2).Draw(t, "drill") == 0 {
		c.Drill = &c09Drill{Iters: rapid.SampledFrom([]int{200, 500, 1000}).Draw(t, "drillIters"), Free: rapid.SampledFrom([]int{1, 1, 1, 2, 0, 3}).Draw(t, "drillFree"), N: rapid.IntRange(1, 3).Draw(t, "drillN")}
	}
	return c
}

func TestC09(t *testing.T) {
	rec := drv.For("C09", c09Rule)
	drv.Prop(t, rec, "stress", 12, 400, genC09, func(tb drv.TB, c c09Case) { c09Run(tb, rec, "stress", c) })
}
