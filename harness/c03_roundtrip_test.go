//go:build verif

package harness

import (
	"bytes"
	"errors"
	"fmt"
	"net"
	"net/netip"
	"sort"
	"testing"
	"time"

	"github.com/irai/packet"
	"golang.org/x/net/dns/dnsmessage"
	"pgregory.net/rapid"
	"verifharness/drv"
	"verifharness/gen"
	"verifharness/ref"
)

// C03 — Encoders and decoders are mutually inverse at every layer.

const c03Rule = "drawn field structs (MAC/IP/port/ttl/id/seq/xid/flags, payload lengths 0..capacity biased to 0,1,MTU-1,MTU, buffers of any capacity >= the documented minimum with random pre-existing content, DHCP option maps and parameter orders, DNS names) fed to the library encoders; frames are finished with Ether.SetPayload or Ether.AppendPayload (copy with or without spare capacity, padding to 60 bytes), headers may get a first body before the real one; the bytes are decoded by the library views and by the ref decoders and compared with the drawn values. non-trivial = payload length > 0 or >= 2 options; distinct by hash of the drawn struct"

type c03Frame struct {
	V6       bool    `json:"v6"`
	SrcMAC   drv.Hex `json:"src_mac"`
	DstMAC   drv.Hex `json:"dst_mac"`
	SrcIP    string  `json:"src_ip"`
	DstIP    string  `json:"dst_ip"`
	TTL      byte    `json:"ttl"`
	Proto    string  `json:"proto"` // udp | icmp | raw
	RawProto byte    `json:"raw_proto"`
	Sport    uint16  `json:"sport"`
	Dport    uint16  `json:"dport"`
	Payload  drv.Hex `json:"payload"`
	Cap      int     `json:"cap"`            // capacity of the frame buffer
	Junk     byte    `json:"junk"`           // pre-existing buffer content seed
	Append   bool    `json:"append"`         // AppendPayload (copy) vs SetPayload (in place)
	First    int     `json:"first"`          // > 0: the headers are first given a payload of this length, then the real one (a body re-sized on the same header)
	Keep     bool    `json:"keep,omitempty"` // IPv4 SetPayload only: the view returned for the first body is the one given the real body (IP4.SetPayload sizes its result from the total length, so a view that already has a body may be given another)
	// how the network packet gets into the frame: 0 Ether.SetPayload (in place), 1 Ether.AppendPayload of an exact-size copy,
	// 2 Ether.AppendPayload of a copy that has EthSpare bytes of spare capacity behind it (frames under 60 bytes are padded with zeros)
	EthAppend int    `json:"eth_append,omitempty"`
	EthSpare  int    `json:"eth_spare,omitempty"`
	EchoType  byte   `json:"echo_type"`
	EchoCode  byte   `json:"echo_code"`
	EchoID    uint16 `json:"echo_id"`
	EchoSeq   uint16 `json:"echo_seq"`
}

func junkBuf(n int, seed byte) []byte {
	b := make([]byte, n)
	for i := range b {
		b[i] = byte(drv.Mix(uint64(seed)<<32 | uint64(i)))
	}
	return b
}

func mac6(h drv.Hex) (m ref.MAC) { copy(m[:], h); return }

// c03BuildFrame composes Ether/IP/(UDP|ICMP echo|raw) the way the library's own senders do.
func c03BuildFrame(c c03Frame) (frame []byte, tooBig bool, err error) {
	buf := junkBuf(c.Cap, c.Junk)
	ether := packet.Ether(buf[:])
	etype := uint16(0x0800)
	if c.V6 {
		etype = 0x86dd
	}
	ether = packet.EncodeEther(ether, etype, net.HardwareAddr(c.SrcMAC), net.HardwareAddr(c.DstMAC))
	src, dst := netip.MustParseAddr(c.SrcIP), netip.MustParseAddr(c.DstIP)
	var l4 []byte
	proto := c.RawProto
	mk := func(room []byte) error {
		switch c.Proto {
		case "udp":
			proto = 17
			udp := packet.EncodeUDP(room, c.Sport, c.Dport)
			if udp == nil {
				return packet.ErrPayloadTooBig
			}
			if c.First > 0 && cap(udp)-8 >= c.First { // a first body on the same header; the header value keeps its 8 bytes
				if c.Append {
					udp.AppendPayload(make([]byte, c.First))
				} else {
					udp.SetPayload(udp[:cap(udp)][8 : 8+c.First])
				}
			}
			if c.Append {
				u, err := udp.AppendPayload(c.Payload)
				if err != nil {
					return err
				}
				l4 = u
			} else {
				if cap(udp)-8 < len(c.Payload) {
					return packet.ErrPayloadTooBig
				}
				copy(udp[:cap(udp)][8:], c.Payload)
				l4 = udp.SetPayload(udp[:cap(udp)][8 : 8+len(c.Payload)])
			}
		case "icmp":
			proto = 1
			if c.V6 {
				proto = 58
			}
			e := packet.EncodeICMPEcho(room, c.EchoType, c.EchoCode, c.EchoID, c.EchoSeq, c.Payload)
			if e == nil {
				return packet.ErrPayloadTooBig
			}
			l4 = e
		default:
			if cap(room) < len(c.Payload) {
				return packet.ErrPayloadTooBig
			}
			l4 = room[:len(c.Payload)]
			copy(l4, c.Payload)
		}
		return nil
	}
	if c.V6 {
		ip6 := packet.EncodeIP6(ether.Payload(), c.TTL, src, dst)
		if err := mk(ip6.Payload()[: 0 : cap(ip6)-40]); err != nil {
			return nil, errors.Is(err, packet.ErrPayloadTooBig), err
		}
		if c.First > 0 && cap(ip6)-40 >= c.First {
			if c.Append {
				ip6.AppendPayload(append(make([]byte, 0, c.First), l4[:min(len(l4), c.First)]...), proto)
			} else {
				ip6.SetPayload(ip6[:cap(ip6)][40:40+c.First], proto)
			}
		}
		if c.Append {
			cp := append([]byte{}, l4...) // non-nil: IP6.AppendPayload treats a nil payload as a caller error
			ip6, err = ip6.AppendPayload(cp, proto)
			if err != nil {
				return nil, errors.Is(err, packet.ErrPayloadTooBig), err
			}
		} else {
			ip6 = ip6.SetPayload(l4, proto)
		}
		ether, err = c03EtherPayload(c, ether, ip6)
		return ether, false, err
	}
	ip4 := packet.EncodeIP4(ether.Payload(), c.TTL, src, dst)
	room := ip4.Payload()
	if err := mk(room[:0:cap(room)]); err != nil {
		return nil, errors.Is(err, packet.ErrPayloadTooBig), err
	}
	if c.First > 0 && cap(ip4)-20 >= c.First {
		if c.Append {
			ip4.AppendPayload(append(make([]byte, 0, c.First), l4[:min(len(l4), c.First)]...), proto)
		} else if c.Keep {
			ip4 = ip4.SetPayload(ip4[:cap(ip4)][20:20+c.First], proto)
		} else {
			ip4.SetPayload(ip4[:cap(ip4)][20:20+c.First], proto)
		}
	}
	if c.Append {
		cp := append([]byte{}, l4...) // non-nil: IP6.AppendPayload treats a nil payload as a caller error
		ip4, err = ip4.AppendPayload(cp, proto)
		if err != nil {
			return nil, errors.Is(err, packet.ErrPayloadTooBig), err
		}
	} else {
		ip4 = ip4.SetPayload(l4, proto)
	}
	ether, err = c03EtherPayload(c, ether, ip4)
	return ether, false, err
}

func c03EtherPayload(c c03Frame, ether packet.Ether, ip []byte) (packet.Ether, error) {
	switch c.EthAppend {
	case 1:
		return ether.AppendPayload(append(make([]byte, 0, len(ip)), ip...))
	case 2:
		return ether.AppendPayload(append(make([]byte, 0, len(ip)+c.EthSpare), ip...))
	}
	return ether.SetPayload(ip)
}

// c03Padded: Ether.AppendPayload pads frames shorter than 60 bytes with zeros.
func c03Padded(c c03Frame, frame []byte, trailing int) bool {
	if c.EthAppend == 0 || len(frame) != 60 {
		return false
	}
	for _, b := range frame[60-trailing:] {
		if b != 0 {
			return false
		}
	}
	return true
}

func c03CheckFrame(tb drv.TB, rec *drv.Rec, sub string, c c03Frame) {
	rec.Eval()
	drv.Begin("C03", sub, 'J', mustJSON(c), 20*time.Second)
	defer drv.End()
	var frame []byte
	var tooBig bool
	var err error
	if p, sig, st := drv.Catch(func() { frame, tooBig, err = c03BuildFrame(c) }); p != nil {
		rec.Violation(tb, sub, "encode-"+sig, c, "composing the frame panicked: %v\n%s", p, st)
		return
	}
	hdr := 14 + 20
	if c.V6 {
		hdr = 14 + 40
	}
	l4hdr := map[string]int{"udp": 8, "icmp": 8, "raw": 0}[c.Proto]
	fits := hdr+l4hdr+len(c.Payload) <= c.Cap
	if !fits {
		rec.Class("capacity: payload does not fit")
		if err == nil || !tooBig {
			rec.Violation(tb, sub, "toobig-not-rejected", c, "payload of %d bytes in a %d byte buffer: err=%v (want ErrPayloadTooBig)", len(c.Payload), c.Cap, err)
		}
		return
	}
	if err != nil {
		rec.Violation(tb, sub, "fits-but-rejected", c, "payload of %d bytes fits a %d byte buffer but the encoder returned %v", len(c.Payload), c.Cap, err)
		return
	}
	fail := func(what string, got, want interface{}) {
		rec.Violation(tb, sub, "roundtrip-"+what, c, "%s: decoded %v, encoded %v (frame % x)", what, got, want, frame[:min(len(frame), 64)])
	}
	// --- reference decode
	ev, e1 := ref.ParseEth(frame)
	if e1 != nil {
		fail("ether", e1, "ok")
		return
	}
	if ev.Src != mac6(c.SrcMAC) || ev.Dst != mac6(c.DstMAC) {
		fail("ether-mac", fmt.Sprint(ev.Src, ev.Dst), fmt.Sprint(c.SrcMAC, c.DstMAC))
		return
	}
	src, dst := netip.MustParseAddr(c.SrcIP), netip.MustParseAddr(c.DstIP)
	var l4 []byte
	var proto byte
	if c.V6 {
		v, e := ref.ParseIP6(ev.Payload)
		if e != nil || ev.Type != 0x86dd {
			fail("ip6", fmt.Sprint(e, ev.Type), "ok")
			return
		}
		if v.Trailing != 0 && !c03Padded(c, frame, v.Trailing) {
			fail("ip6-length-consistency", fmt.Sprintf("PayloadLen %d, %d trailing bytes", v.PayloadLen, v.Trailing), "frame = 14+40+PayloadLen")
			return
		}
		if v.Src != src.As16() || v.Dst != dst.As16() || v.HopLimit != c.TTL {
			fail("ip6-fields", fmt.Sprint(v.Src, v.Dst, v.HopLimit), fmt.Sprint(src, dst, c.TTL))
			return
		}
		l4, proto = v.Payload, v.Next
	} else {
		v, e := ref.ParseIP4(ev.Payload)
		if e != nil || ev.Type != 0x0800 {
			fail("ip4", fmt.Sprint(e, ev.Type), "ok")
			return
		}
		if v.Trailing != 0 && !c03Padded(c, frame, v.Trailing) {
			fail("ip4-length-consistency", fmt.Sprintf("TotalLen %d, %d trailing bytes", v.TotalLen, v.Trailing), "frame = 14+TotalLen (or zero padding up to 60 bytes after Ether.AppendPayload)")
			return
		}
		if !v.ChecksumOK {
			fail("ip4-checksum", "does not verify", "verifies")
			return
		}
		if v.Src != src.As4() || v.Dst != dst.As4() || v.TTL != c.TTL || v.IHL != 20 {
			fail("ip4-fields", fmt.Sprint(v.Src, v.Dst, v.TTL, v.IHL), fmt.Sprint(src, dst, c.TTL, 20))
			return
		}
		l4, proto = v.Payload, v.Proto
	}
	switch c.Proto {
	case "udp":
		u, e := ref.ParseUDP(l4)
		if e != nil || proto != 17 {
			fail("udp-length-consistency", fmt.Sprint(e, proto), "udp len = 8 + payload, proto 17")
			return
		}
		if u.Sport != c.Sport || u.Dport != c.Dport || !bytes.Equal(u.Payload, c.Payload) {
			fail("udp-fields", fmt.Sprint(u.Sport, u.Dport, len(u.Payload)), fmt.Sprint(c.Sport, c.Dport, len(c.Payload)))
			return
		}
	case "icmp":
		v, e := ref.ParseICMP(l4)
		if e != nil {
			fail("icmp", e, "ok")
			return
		}
		if v.Type != c.EchoType || v.Code != c.EchoCode || v.ID != c.EchoID || v.Seq != c.EchoSeq || !bytes.Equal(v.Payload, c.Payload) {
			fail("icmp-echo-fields", fmt.Sprint(v.Type, v.Code, v.ID, v.Seq, len(v.Payload)), fmt.Sprint(c.EchoType, c.EchoCode, c.EchoID, c.EchoSeq, len(c.Payload)))
			return
		}
	default:
		if proto != c.RawProto || !bytes.Equal(l4, c.Payload) {
			fail("raw-payload", fmt.Sprint(proto, len(l4)), fmt.Sprint(c.RawProto, len(c.Payload)))
			return
		}
	}
	// --- library decode of the same bytes (views) and classification by Parse
	s := c02Session()
	var fr packet.Frame
	var perr error
	if p, sig, st := drv.Catch(func() { fr, perr = s.Parse(frame) }); p != nil {
		rec.Violation(tb, sub, "parse-"+sig, c, "Parse of the encoded frame panicked: %v\n%s", p, st)
		return
	}
	want := ref.Decode(frame)
	pad := 0 // zero bytes Ether.AppendPayload added behind the network packet (frames under 60 bytes)
	if c.EthAppend != 0 && len(frame) == 60 {
		pad = 60 - (hdr + l4hdr + len(c.Payload))
	}
	if pad > 0 && want.Lenient {
		return // an IPv6 packet followed by padding: the statement leaves Parse's verdict open (C02); no UDP datagram over IPv6 is that short
	}
	if (perr != nil) != want.Err {
		fail("parse-encoded-frame", perr, fmt.Sprintf("reference error verdict %v", want.Err))
		return
	}
	if want.Err {
		return // e.g. protocol 6 with a payload that is no TCP header: the encoders do not know about TCP
	}
	if fr.SrcAddr.IP != want.SrcIP || fr.DstAddr.IP != want.DstIP || !bytes.Equal(fr.SrcAddr.MAC, c.SrcMAC) || !bytes.Equal(fr.DstAddr.MAC, c.DstMAC) {
		fail("parse-addresses", fmt.Sprint(fr.SrcAddr, fr.DstAddr), fmt.Sprint(want.SrcIP, want.DstIP))
		return
	}
	if c.SrcMAC[0]&1 == 0 && (want.SrcIP != src || want.DstIP != dst) {
		fail("parse-addresses-ref", fmt.Sprint(want.SrcIP, want.DstIP), fmt.Sprint(src, dst))
		return
	}
	if int(fr.PayloadID) != want.PayloadID {
		fail("parse-class", fr.PayloadID, want.PayloadID)
		return
	}
	if c.Proto == "udp" && c.SrcMAC[0]&1 == 0 {
		if cls := ref.UDPClass(c.Sport, c.Dport); int(fr.PayloadID) != cls {
			fail("parse-udp-class", fr.PayloadID, cls)
			return
		}
		if u := fr.UDP(); u == nil || u.SrcPort() != c.Sport || u.DstPort() != c.Dport || int(u.Len()) != 8+len(c.Payload) {
			fail("view-udp", fmt.Sprint(u), fmt.Sprint(c.Sport, c.Dport))
			return
		}
		// (Frame.Payload runs to the end of the frame: behind a padded datagram it includes the padding, as in C02's reference)
		if ref.UDPClass(c.Sport, c.Dport) != ref.PUDP && !bytes.Equal(fr.Payload(), append(append([]byte{}, c.Payload...), make([]byte, max(pad, 0))...)) {
			fail("parse-payload", len(fr.Payload()), len(c.Payload))
			return
		}
	}
	if !c.V6 && c.SrcMAC[0]&1 == 0 {
		ip := fr.IP4()
		if ip == nil || ip.TotalLen() != len(frame)-14-max(pad, 0) || ip.Src() != src || ip.Dst() != dst || ip.TTL() != int(c.TTL) {
			fail("view-ip4", fmt.Sprint(ip), "drawn values")
			return
		}
	}
	if len(c.Payload) > 0 {
		rec.NonTrivial(drv.HashJSON(c), func() interface{} { return c })
	}
}

// ---- AppendPayload capacity contract (isolated, with the bytes beyond the old length watched)

type c03Cap struct {
	Layer   string `json:"layer"` // ip4 | ip6 | udp
	Cap     int    `json:"cap"`   // capacity of the slice holding the header
	Payload int    `json:"payload"`
	Junk    byte   `json:"junk"`
}

func c03CheckCap(tb drv.TB, rec *drv.Rec, sub string, c c03Cap) {
	rec.Eval()
	hdr := map[string]int{"ip4": 20, "ip6": 40, "udp": 8}[c.Layer]
	buf := junkBuf(c.Cap+64, c.Junk)
	before := append([]byte(nil), buf...)
	room := buf[:c.Cap:c.Cap]
	payload := junkBuf(c.Payload, c.Junk+1)
	var err error
	var out []byte
	if p, sig, st := drv.Catch(func() {
		switch c.Layer {
		case "ip4":
			h := packet.EncodeIP4(room, 64, netip.MustParseAddr("192.168.0.1"), netip.MustParseAddr("192.168.0.2"))
			copy(before, buf[:20])
			out, err = h.AppendPayload(payload, 17)
		case "ip6":
			h := packet.EncodeIP6(room, 64, netip.MustParseAddr("fe80::1"), netip.MustParseAddr("fe80::2"))
			copy(before, buf[:40])
			out, err = h.AppendPayload(payload, 17)
		case "udp":
			h := packet.EncodeUDP(room, 1, 2)
			copy(before, buf[:8])
			out, err = h.AppendPayload(payload)
		}
	}); p != nil {
		rec.Violation(tb, sub, "append-"+c.Layer+"-"+sig, c, "%s.AppendPayload(%d bytes) with capacity %d panicked: %v\n%s", c.Layer, c.Payload, c.Cap, p, st)
		return
	}
	if c.Payload > c.Cap-hdr {
		if !errors.Is(err, packet.ErrPayloadTooBig) {
			rec.Violation(tb, sub, "append-"+c.Layer+"-toobig-accepted", c, "%d byte payload, %d bytes of room: err=%v", c.Payload, c.Cap-hdr, err)
			return
		}
		if !bytes.Equal(buf[hdr:], before[hdr:]) {
			rec.Violation(tb, sub, "append-"+c.Layer+"-wrote-on-reject", c, "rejected AppendPayload modified bytes beyond the header")
			return
		}
	} else {
		if err != nil {
			rec.Violation(tb, sub, "append-"+c.Layer+"-fits-rejected", c, "%d byte payload, %d bytes of room: err=%v", c.Payload, c.Cap-hdr, err)
			return
		}
		if len(out) != hdr+c.Payload || !bytes.Equal(out[hdr:], payload) {
			rec.Violation(tb, sub, "append-"+c.Layer+"-content", c, "result has %d bytes, want %d with the payload after the header", len(out), hdr+c.Payload)
			return
		}
		if !bytes.Equal(buf[c.Cap:], before[c.Cap:]) {
			rec.Violation(tb, sub, "append-"+c.Layer+"-overflow", c, "AppendPayload wrote past the capacity of its slice")
			return
		}
	}
	rec.NonTrivial(drv.HashJSON(c), func() interface{} { return c })
}

// ---- ARP

type c03ARP struct {
	Op   uint16  `json:"op"`
	SMAC drv.Hex `json:"smac"`
	SIP  string  `json:"sip"`
	TMAC drv.Hex `json:"tmac"`
	TIP  string  `json:"tip"`
	Cap  int     `json:"cap"`
	Junk byte    `json:"junk"`
}

func c03CheckARP(tb drv.TB, rec *drv.Rec, sub string, c c03ARP) {
	rec.Eval()
	var b []byte
	if p, sig, st := drv.Catch(func() {
		b = packet.EncodeARP(junkBuf(c.Cap, c.Junk)[:0], c.Op, packet.Addr{MAC: net.HardwareAddr(c.SMAC), IP: netip.MustParseAddr(c.SIP)}, packet.Addr{MAC: net.HardwareAddr(c.TMAC), IP: netip.MustParseAddr(c.TIP)})
	}); p != nil {
		rec.Violation(tb, sub, "arp-"+sig, c, "EncodeARP panicked: %v\n%s", p, st)
		return
	}
	p, err := ref.ParseARP(b)
	want := ref.ARPPkt{HType: 1, PType: 0x0800, HLen: 6, PLen: 4, Op: c.Op, SHA: mac6(c.SMAC), SPA: netip.MustParseAddr(c.SIP).As4(), THA: mac6(c.TMAC), TPA: netip.MustParseAddr(c.TIP).As4()}
	if err != nil || p != want {
		rec.Violation(tb, sub, "roundtrip-arp", c, "EncodeARP decodes to %+v (%v), want %+v", p, err, want)
		return
	}
	v := packet.ARP(b)
	if v.IsValid() != nil || v.Operation() != c.Op || !bytes.Equal(v.SrcMAC(), c.SMAC) || v.SrcIP().String() != c.SIP || !bytes.Equal(v.DstMAC(), c.TMAC) || v.DstIP().String() != c.TIP {
		rec.Violation(tb, sub, "roundtrip-arp-view", c, "library view of EncodeARP output disagrees with the inputs: %v", v)
		return
	}
	rec.NonTrivial(drv.HashJSON(c), func() interface{} { return c })
}

// ---- DHCP

type c03Opt struct {
	Code byte    `json:"code"`
	Data drv.Hex `json:"data"`
}

type c03DHCP struct {
	Op        byte     `json:"op"`
	MT        byte     `json:"mt"`
	CHAddr    drv.Hex  `json:"chaddr"` // empty = keep the buffer's
	CIAddr    string   `json:"ciaddr"` // "" = keep
	YIAddr    string   `json:"yiaddr"`
	XID       drv.Hex  `json:"xid"` // empty = keep
	Broadcast bool     `json:"broadcast"`
	Options   []c03Opt `json:"options"`
	Order     drv.Hex  `json:"order"`
	Cap       int      `json:"cap"`
	Junk      byte     `json:"junk"`
	Reuse     bool     `json:"reuse"` // encode the reply inside a buffer that holds a request (the handler's idiom)
}

func c03CheckDHCP(tb drv.TB, rec *drv.Rec, sub string, c c03DHCP) {
	rec.Eval()
	drv.Begin("C03", sub, 'J', mustJSON(c), 20*time.Second)
	defer drv.End()
	buf := junkBuf(c.Cap, c.Junk)
	prev := ref.DHCPMsg{Op: 1, HType: 1, HLen: 6, CHAddr: ref.MAC{2, 4, 6, 8, 10, 12}, XID: [4]byte{9, 8, 7, 6}, CIAddr: [4]byte{10, 1, 2, 3}, YIAddr: [4]byte{10, 4, 5, 6}}
	if c.Reuse {
		copy(buf, prev.Encode(true))
	}
	opts := packet.DHCP4Options{}
	want := map[byte][]byte{53: {c.MT}}
	for _, o := range c.Options {
		opts[packet.DHCP4OptionCode(o.Code)] = append([]byte(nil), o.Data...)
		if o.Code != 53 {
			want[o.Code] = o.Data
		}
	}
	var chaddr net.HardwareAddr
	if len(c.CHAddr) == 6 {
		chaddr = net.HardwareAddr(c.CHAddr)
	}
	var ci, yi netip.Addr
	if c.CIAddr != "" {
		ci = netip.MustParseAddr(c.CIAddr)
	}
	if c.YIAddr != "" {
		yi = netip.MustParseAddr(c.YIAddr)
	}
	var xid []byte
	if len(c.XID) == 4 {
		xid = c.XID
	}
	order := append([]byte(nil), c.Order...)
	var out packet.DHCP4
	if p, sig, st := drv.Catch(func() {
		out = packet.EncodeDHCP4(buf[:0], packet.DHCP4OpCode(c.Op), packet.DHCP4MessageType(c.MT), chaddr, ci, yi, xid, c.Broadcast, opts, order)
	}); p != nil {
		rec.Violation(tb, sub, "dhcp-"+sig, c, "EncodeDHCP4 panicked: %v\n%s", p, st)
		return
	}
	fail := func(what string, got, wantv interface{}) {
		rec.Violation(tb, sub, "roundtrip-dhcp-"+what, c, "dhcp %s: decoded %v, want %v", what, got, wantv)
	}
	if out == nil {
		fail("nil", "nil", "a message (capacity >= 300)")
		return
	}
	if len(out) < 300 {
		fail("min-size", len(out), ">= 300")
		return
	}
	m, err := ref.DecodeDHCP(out)
	if err != nil {
		fail("decode", err, "well-formed message with End")
		return
	}
	if m.Op != c.Op || m.HType != 1 || m.HLen != 6 || m.Hops != 0 {
		fail("fixed", fmt.Sprint(m.Op, m.HType, m.HLen, m.Hops), fmt.Sprint(c.Op, 1, 6, 0))
		return
	}
	expCH, expXID, expCI, expYI := mac6(c.CHAddr), [4]byte{}, [4]byte{}, [4]byte{}
	copy(expXID[:], c.XID)
	if c.Reuse {
		if chaddr == nil {
			expCH = prev.CHAddr
		}
		if xid == nil {
			expXID = prev.XID
		}
		expCI, expYI = prev.CIAddr, prev.YIAddr
	}
	if ci.Is4() {
		expCI = ci.As4()
	}
	if yi.Is4() {
		expYI = yi.As4()
	}
	if c.Reuse || chaddr != nil {
		if m.CHAddr != expCH {
			fail("chaddr", m.CHAddr, expCH)
			return
		}
	}
	if c.Reuse || xid != nil {
		if m.XID != expXID {
			fail("xid", m.XID, expXID)
			return
		}
	}
	if c.Reuse || ci.Is4() {
		if m.CIAddr != expCI {
			fail("ciaddr", m.CIAddr, expCI)
			return
		}
	}
	if c.Reuse || yi.Is4() {
		if m.YIAddr != expYI {
			fail("yiaddr", m.YIAddr, expYI)
			return
		}
	}
	if (m.Flags&0x8000 != 0) != c.Broadcast {
		fail("broadcast-flag", m.Flags, c.Broadcast)
		return
	}
	if m.Flags&0x7fff != 0 { // the flags word is the broadcast bit the caller supplied, nothing left over from the buffer
		fail("flags-reserved-bits", fmt.Sprintf("%#04x", m.Flags), "0x8000 or 0x0000")
		return
	}
	if m.SIAddr != [4]byte{} || m.GIAddr != [4]byte{} {
		fail("siaddr/giaddr", fmt.Sprint(m.SIAddr, m.GIAddr), "zero")
		return
	}
	// option map = drawn map ∪ {53}
	got := map[byte][]byte{}
	for _, o := range m.Options {
		if _, dup := got[o.Code]; dup {
			fail("duplicate-option", o.Code, "each option once")
			return
		}
		got[o.Code] = o.Data
	}
	if len(got) != len(want) {
		fail("option-set", keys(got), keys(want))
		return
	}
	for k, v := range want {
		if !bytes.Equal(got[k], v) {
			fail(fmt.Sprintf("option-%d", k), got[k], v)
			return
		}
	}
	// order: the requested parameters that are present come first, in the requested order
	// (the subnet mask may be hoisted in front of the router, so it is left out of the comparison)
	var outSeq []byte
	for _, o := range m.Options {
		if o.Code != 1 {
			outSeq = append(outSeq, o.Code)
		}
	}
	pos := 0
	seen := map[byte]bool{}
	for _, code := range c.Order {
		if _, ok := want[code]; !ok || seen[code] || code == 1 {
			continue
		}
		seen[code] = true
		if pos >= len(outSeq) || outSeq[pos] != code {
			fail("requested-order", optCodes(m.Options), fmt.Sprintf("requested order % d first", []byte(c.Order)))
			return
		}
		pos++
	}
	// subnet mask (1) precedes router (3) — RFC 2132 3.3
	if i1, i3 := m.OptIndex(1), m.OptIndex(3); i1 >= 0 && i3 >= 0 && i1 > i3 {
		rec.Class("dhcp: request list names router before mask")
		fail("mask-before-router", optCodes(m.Options), "option 1 before option 3")
		return
	}
	// the library's own view agrees
	v := packet.DHCP4(out)
	if v.IsValid() != nil {
		fail("view-isvalid", v.IsValid(), nil)
		return
	}
	lo := v.ParseOptions()
	if len(lo) != len(want) {
		fail("view-options", len(lo), len(want))
		return
	}
	for k, val := range want {
		if !bytes.Equal(lo[packet.DHCP4OptionCode(k)], val) {
			fail(fmt.Sprintf("view-option-%d", k), lo[packet.DHCP4OptionCode(k)], val)
			return
		}
	}
	if len(c.Options) >= 2 {
		rec.NonTrivial(drv.HashJSON(c), func() interface{} { return c })
	}
}

func keys(m map[byte][]byte) []int {
	var k []int
	for c := range m {
		k = append(k, int(c))
	}
	sort.Ints(k)
	return k
}

func optCodes(o []ref.DHCPOpt) []int {
	var k []int
	for _, x := range o {
		k = append(k, int(x.Code))
	}
	return k
}

// ---- DNS query, NDP marshal

type c03DNS struct {
	ID     uint16   `json:"id"`
	Flags  uint16   `json:"flags"`
	Labels []string `json:"labels"`
	QType  uint16   `json:"qtype"`
}

func c03CheckDNS(tb drv.TB, rec *drv.Rec, sub string, c c03DNS) {
	rec.Eval()
	name := ref.EncodeName(ref.Name(c.Labels))
	var out packet.DNS
	if p, sig, st := drv.Catch(func() {
		out = packet.EncodeDNSQuery(c.ID, c.Flags, name, c.QType)
		// a second query is built before the first is looked at (a batch of queries): the first must not change
		packet.EncodeDNSQuery(c.ID^0xffff, c.Flags^0x0100, ref.EncodeName(ref.Name{"another", "query", "example"}), c.QType^1)
	}); p != nil {
		rec.Violation(tb, sub, "dns-"+sig, c, "EncodeDNSQuery panicked: %v\n%s", p, st)
		return
	}
	m, err := ref.DecodeDNS(out)
	if err != nil || m.ID != c.ID || m.Flags != c.Flags || m.Counts != [4]uint16{1, 0, 0, 0} || len(m.Questions) != 1 ||
		m.Questions[0].Name.String() != ref.Name(c.Labels).String() || m.Questions[0].Type != c.QType || m.Questions[0].Class != 1 {
		rec.Violation(tb, sub, "roundtrip-dns-query", c, "EncodeDNSQuery decodes (ref) to %+v err=%v", m, err)
		return
	}
	if 12+len(name)+4 != len(out) {
		rec.Violation(tb, sub, "roundtrip-dns-length", c, "query is %d bytes, want %d", len(out), 12+len(name)+4)
		return
	}
	// second independent reader
	var p dnsmessage.Parser
	if h, err := p.Start(out); err != nil || h.ID != c.ID {
		rec.Violation(tb, sub, "roundtrip-dns-dnsmessage", c, "dnsmessage cannot read the query: %v", err)
		return
	}
	// the library's own decoder
	q, off, err := packet.DecodeQuestion(out, 12, make([]byte, 0, 64))
	if err != nil || off != len(out) || string(q.Name) != ref.Name(c.Labels).String() || q.Type != c.QType || q.Class != 1 {
		rec.Violation(tb, sub, "roundtrip-dns-decodequestion", c, "DecodeQuestion of the library's own query: name %q type %d class %d off %d err %v", q.Name, q.Type, q.Class, off, err)
		return
	}
	rec.NonTrivial(drv.HashJSON(c), func() interface{} { return c })
}

type c03NDP struct {
	NS        bool    `json:"ns"`
	Router    bool    `json:"router"`
	Solicited bool    `json:"solicited"`
	Override  bool    `json:"override"`
	Target    string  `json:"target"`
	MAC       drv.Hex `json:"mac"`
}

func c03CheckNDP(tb drv.TB, rec *drv.Rec, sub string, c c03NDP) {
	rec.Eval()
	target := netip.MustParseAddr(c.Target)
	var b []byte
	changed := false
	if p, sig, st := drv.Catch(func() {
		if c.NS {
			b, _ = packet.ICMP6NeighborSolicitationMarshal(target, net.HardwareAddr(c.MAC))
		} else {
			b = packet.ICMP6NeighborAdvertisementMarshal(c.Router, c.Solicited, c.Override, packet.Addr{MAC: net.HardwareAddr(c.MAC), IP: target})
		}
		// the caller keeps the message while it builds the next ones (a burst of solicitations / advertisements): what Marshal
		// returned must not change under it
		keep := append([]byte(nil), b...)
		other := netip.AddrFrom16([16]byte{0xfe, 0x80, 15: 0x77})
		packet.ICMP6NeighborSolicitationMarshal(other, net.HardwareAddr{0xee, 0xee, 0xee, 0xee, 0xee, 0xee})
		packet.ICMP6NeighborAdvertisementMarshal(!c.Router, !c.Solicited, !c.Override, packet.Addr{MAC: net.HardwareAddr{0xdd, 0xdd, 0xdd, 0xdd, 0xdd, 0xdd}, IP: other})
		if !bytes.Equal(keep, b) {
			b = append(b[:0:0], b...)
			changed = true
		}
	}); p != nil {
		rec.Violation(tb, sub, "ndp-"+sig, c, "NDP marshal panicked: %v\n%s", p, st)
		return
	}
	fail := func(what string, got, want interface{}) {
		rec.Violation(tb, sub, "roundtrip-ndp-"+what, c, "%s: %v, want %v (% x)", what, got, want, b)
	}
	if changed {
		fail("message-changed-by-later-marshal", "the returned bytes changed when two further messages were marshalled", "a message of its own")
		return
	}
	if len(b) != 32 {
		fail("length", len(b), 32)
		return
	}
	opts, err := ref.ParseNDPOptions(b[24:])
	if err != nil || len(opts) != 1 {
		fail("options", fmt.Sprint(opts, err), "one link-layer address option")
		return
	}
	if !bytes.Equal(b[8:24], target.AsSlice()) || !bytes.Equal(opts[0].Body, c.MAC) {
		fail("target/lla", fmt.Sprintf("% x / % x", b[8:24], opts[0].Body), fmt.Sprint(target, c.MAC))
		return
	}
	if c.NS {
		// RFC 4861 4.3: type 135, the option is the SOURCE link-layer address (type 1)
		if b[0] != 135 || b[1] != 0 {
			fail("ns-type", b[0], 135)
			return
		}
		if opts[0].Type != 1 {
			fail("ns-option-type", opts[0].Type, "1 (source link-layer address)")
			return
		}
		v := packet.ICMP6NeighborSolicitation(b)
		if v.IsValid() != nil || v.TargetAddress() != target || !bytes.Equal(v.SourceLLA(), c.MAC) {
			fail("ns-view", fmt.Sprint(v.TargetAddress(), v.SourceLLA()), fmt.Sprint(target, c.MAC))
			return
		}
	} else {
		// RFC 4861 4.4: type 136, R/S/O flags, TARGET link-layer address (type 2)
		if b[0] != 136 || b[1] != 0 || opts[0].Type != 2 {
			fail("na-type", fmt.Sprint(b[0], opts[0].Type), "136 / option 2")
			return
		}
		if (b[4]&0x80 != 0) != c.Router || (b[4]&0x40 != 0) != c.Solicited || (b[4]&0x20 != 0) != c.Override || b[4]&0x1f != 0 {
			fail("na-flags", b[4], fmt.Sprint(c.Router, c.Solicited, c.Override))
			return
		}
		v := packet.ICMP6NeighborAdvertisement(b)
		if v.IsValid() != nil || v.TargetAddress() != target || !bytes.Equal(v.TargetLLA(), c.MAC) || v.Router() != c.Router || v.Solicited() != c.Solicited || v.Override() != c.Override {
			fail("na-view", fmt.Sprint(v.TargetAddress(), v.TargetLLA()), fmt.Sprint(target, c.MAC))
			return
		}
	}
	rec.NonTrivial(drv.HashJSON(c), func() interface{} { return c })
}

func TestC03(t *testing.T) {
	rec := drv.For("C03", c03Rule)
	w := gen.DefaultWorld()
	macHex := func(t *rapid.T, l string) drv.Hex { m := w.MAC().Draw(t, l); return drv.Hex(m[:]) }
	ip4s := func(t *rapid.T, l string) string { return netip.AddrFrom4(w.IP4().Draw(t, l)).String() }
	ip6s := func(t *rapid.T, l string) string { return netip.AddrFrom16(w.IP6().Draw(t, l)).String() }

	drv.Prop(t, rec, "frames", 40000, 1000000, func(t *rapid.T) c03Frame {
		c := c03Frame{V6: rapid.Bool().Draw(t, "v6"), SrcMAC: macHex(t, "src"), DstMAC: macHex(t, "dst"), TTL: rapid.Byte().Draw(t, "ttl"),
			Proto: rapid.SampledFrom([]string{"udp", "udp", "icmp", "raw"}).Draw(t, "proto"), RawProto: rapid.SampledFrom([]byte{0, 2, 6, 47, 59, 255}).Draw(t, "rawproto"),
			Sport: gen.Port().Draw(t, "sport"), Dport: gen.Port().Draw(t, "dport"), Junk: rapid.Byte().Draw(t, "junk"), Append: rapid.Bool().Draw(t, "append"),
			EchoType: rapid.SampledFrom([]byte{8, 0, 128, 129, 3}).Draw(t, "etype"), EchoCode: rapid.Byte().Draw(t, "ecode"), EchoID: rapid.Uint16().Draw(t, "eid"), EchoSeq: rapid.Uint16().Draw(t, "eseq")}
		if c.V6 {
			c.SrcIP, c.DstIP = ip6s(t, "src6"), ip6s(t, "dst6")
		} else {
			c.SrcIP, c.DstIP = ip4s(t, "src4"), ip4s(t, "dst4")
		}
		hdr := 14 + 20 + 8
		if c.V6 {
			hdr = 14 + 40 + 8
		}
		c.Cap = rapid.OneOf(rapid.Just(packet.EthMaxSize), rapid.Just(packet.EthMaxSize), rapid.IntRange(hdr, packet.EthMaxSize), rapid.IntRange(hdr, 200)).Draw(t, "cap")
		maxp := c.Cap - hdr
		n := rapid.OneOf(rapid.IntRange(0, 64), rapid.IntRange(0, maxp+40), rapid.SampledFrom([]int{0, 1, maxp - 1, maxp, maxp + 1, maxp + 9, 1472, 1473, 1500})).Draw(t, "plen")
		if n < 0 {
			n = 0
		}
		c.Payload = gen.Bytes(t, n, "payload")
		if rapid.IntRange(0, 3).Draw(t, "resized") == 0 {
			c.First = rapid.IntRange(1, 300).Draw(t, "first")
			c.Keep = rapid.Bool().Draw(t, "keep")
		}
		if c.Cap >= 60 && rapid.IntRange(0, 2).Draw(t, "ethAppend") == 0 { // the copying variant at the Ethernet layer (it pads to 60 bytes: the buffer must hold that much)
			c.EthAppend = rapid.IntRange(1, 2).Draw(t, "ethAppendMode")
			if c.EthAppend == 2 {
				c.EthSpare = rapid.SampledFrom([]int{1, 8, 64, 1500, 3000}).Draw(t, "ethSpare")
			}
		}
		return c
	}, func(tb drv.TB, c c03Frame) { c03CheckFrame(tb, rec, "frames", c) })

	drv.Prop(t, rec, "append-capacity", 20000, 400000, func(t *rapid.T) c03Cap {
		layer := rapid.SampledFrom([]string{"ip4", "ip6", "udp"}).Draw(t, "layer")
		hdr := map[string]int{"ip4": 20, "ip6": 40, "udp": 8}[layer]
		cp := rapid.OneOf(rapid.IntRange(hdr, hdr+40), rapid.IntRange(hdr, 1600)).Draw(t, "cap")
		room := cp - hdr
		return c03Cap{Layer: layer, Cap: cp, Payload: rapid.OneOf(rapid.IntRange(0, room+20), rapid.SampledFrom([]int{0, 1, room, room + 1, room + 2, max(room-1, 0)})).Draw(t, "payload"), Junk: rapid.Byte().Draw(t, "junk")}
	}, func(tb drv.TB, c c03Cap) { c03CheckCap(tb, rec, "append-capacity", c) })

	drv.Prop(t, rec, "arp", 10000, 200000, func(t *rapid.T) c03ARP {
		return c03ARP{Op: uint16(rapid.SampledFrom([]int{1, 2, 0, 3, 65535}).Draw(t, "op")), SMAC: macHex(t, "smac"), SIP: ip4s(t, "sip"), TMAC: macHex(t, "tmac"), TIP: ip4s(t, "tip"),
			Cap: rapid.OneOf(rapid.Just(28), rapid.IntRange(28, 1500)).Draw(t, "cap"), Junk: rapid.Byte().Draw(t, "junk")}
	}, func(tb drv.TB, c c03ARP) { c03CheckARP(tb, rec, "arp", c) })

	drv.Prop(t, rec, "dhcp", 20000, 400000, func(t *rapid.T) c03DHCP {
		c := c03DHCP{Op: rapid.SampledFrom([]byte{1, 2}).Draw(t, "op"), MT: byte(rapid.IntRange(1, 8).Draw(t, "mt")), Broadcast: rapid.Bool().Draw(t, "bcast"), Junk: rapid.Byte().Draw(t, "junk"), Reuse: rapid.Bool().Draw(t, "reuse")}
		if rapid.Bool().Draw(t, "hasCh") {
			c.CHAddr = macHex(t, "chaddr")
		}
		if rapid.Bool().Draw(t, "hasCi") {
			c.CIAddr = ip4s(t, "ci")
		}
		if rapid.Bool().Draw(t, "hasYi") {
			c.YIAddr = ip4s(t, "yi")
		}
		if rapid.Bool().Draw(t, "hasXid") {
			c.XID = gen.Bytes(t, 4, "xid")
		}
		used := map[byte]bool{}
		size := 3 // option 53
		n := rapid.IntRange(0, 12).Draw(t, "nopt")
		limit, many := 700, rapid.IntRange(0, 7).Draw(t, "manyOptions") == 0
		off := rapid.IntRange(0, 253).Draw(t, "codeOffset")
		if many { // option maps of 60..253 entries (every code once): "all DHCP option maps whose encoding fits"
			n = rapid.SampledFrom([]int{60, 63, 64, 65, 66, 90, 127, 128, 129, 200, 253}).Draw(t, "nmany")
			limit = 1200
		}
		for i := 0; i < n; i++ {
			var code byte
			var l int
			if many {
				code = byte(1 + (i*37+off)%254) // a permutation of 1..254 (37 is coprime to 254)
				l = rapid.IntRange(0, 2).Draw(t, "olen")
			} else {
				code = byte(rapid.OneOf(rapid.SampledFrom([]int{1, 3, 6, 33, 51, 54, 121, 12, 15, 31}), rapid.IntRange(1, 254)).Draw(t, "code"))
				l = rapid.OneOf(rapid.IntRange(0, 8), rapid.IntRange(0, 255)).Draw(t, "olen")
			}
			if used[code] || code == 53 {
				continue
			}
			if size+2+l > limit {
				continue
			}
			used[code] = true
			size += 2 + l
			c.Options = append(c.Options, c03Opt{code, gen.Bytes(t, l, "odata")})
		}
		c.Cap = rapid.OneOf(rapid.Just(packet.EthMaxSize-42), rapid.IntRange(max(300, 241+size), 1500)).Draw(t, "cap")
		if c.Cap < 241+size {
			c.Cap = 241 + size
		}
		no := rapid.IntRange(0, 10).Draw(t, "norder")
		for i := 0; i < no; i++ {
			c.Order = append(c.Order, byte(rapid.OneOf(rapid.SampledFrom([]int{1, 3, 6, 33, 121, 15, 119, 252, 51, 58, 59}), rapid.IntRange(1, 254)).Draw(t, "ocode")))
		}
		return c
	}, func(tb drv.TB, c c03DHCP) { c03CheckDHCP(tb, rec, "dhcp", c) })

	drv.Prop(t, rec, "dns-query", 10000, 200000, func(t *rapid.T) c03DNS {
		n := rapid.IntRange(1, 8).Draw(t, "nlabels")
		var labels []string
		total := 1
		for i := 0; i < n; i++ {
			l := rapid.OneOf(rapid.IntRange(1, 12), rapid.IntRange(1, 63)).Draw(t, "llen")
			if total+1+l > 255 {
				break
			}
			total += 1 + l
			labels = append(labels, rapid.StringOfN(rapid.RuneFrom([]rune("abcdefghijklmnopqrstuvwxyzABCDEFGHIJKLMNOPQRSTUVWXYZ0123456789-_")), l, l, l).Draw(t, "label"))
		}
		if len(labels) == 0 {
			labels = []string{"a"}
		}
		return c03DNS{ID: rapid.Uint16().Draw(t, "id"), Flags: rapid.Uint16().Draw(t, "flags"), Labels: labels, QType: rapid.SampledFrom([]uint16{1, 28, 12, 255, 0x20, 0x21, 33}).Draw(t, "qtype")}
	}, func(tb drv.TB, c c03DNS) { c03CheckDNS(tb, rec, "dns-query", c) })

	drv.Prop(t, rec, "ndp", 5000, 100000, func(t *rapid.T) c03NDP {
		return c03NDP{NS: rapid.Bool().Draw(t, "ns"), Router: rapid.Bool().Draw(t, "r"), Solicited: rapid.Bool().Draw(t, "s"), Override: rapid.Bool().Draw(t, "o"), Target: ip6s(t, "target"), MAC: macHex(t, "mac")}
	}, func(tb drv.TB, c c03NDP) { c03CheckNDP(tb, rec, "ndp", c) })
}
