//go:build verif

package harness

import (
	"bytes"
	"encoding/binary"
	"fmt"
	"net"
	"net/netip"
	"runtime"
	"sort"
	"strings"
	"testing"
	"time"

	"github.com/irai/packet"
	icmp "github.com/irai/packet/handlers/icmp_spoofer"
	"pgregory.net/rapid"
	"verifharness/drv"
	"verifharness/gen"
	"verifharness/ref"
)

// C14 — ICMPv6 spoofing is confined to hunted hosts; routers are learned exactly.

const c14Rule = "(a) StartHunt / StopHunt / Close histories over IPv4, global, link-local and address-less targets with router advertisements in between: synchronous model of the hunt list (frames after a settle) and real-time scenarios (calls at drawn offsets within 8 s, observed for 17 s, many concurrently); every forged neighbour advertisement (type 136, target = a learned router, TLLA = our MAC, override, hop limit 255) must go to a MAC in the model's hunt list, only once a router is known, and none after StopHunt / Close + 1 s; (b) router advertisements built by ref from generated structures (flags, preference, hop limit, lifetimes, timers; prefix information x0..3, MTU, RDNSS, DNSSL, route information, source LLA, unknown options), delivered 4x from a link-local source: FindRouter / LANRouters must record every field as the generator's structure says. non-trivial = RA with >= 2 options / scenario with a stop of a started target; distinct by hash of the case"

// ---- (b) router learning

type c14Prefix struct {
	Len       int    `json:"len"`
	OnLink    bool   `json:"onlink"`
	Auto      bool   `json:"auto"`
	Valid     uint32 `json:"valid"`
	Preferred uint32 `json:"preferred"`
	Prefix    string `json:"prefix"` // 16 bytes, bits after Len may be set (the receiver ignores them)
}

type c14RA struct {
	Router    int         `json:"router"` // which of the two routers sends it
	HopLimit  byte        `json:"hop"`
	Flags     byte        `json:"flags"` // M O H Prf(2) P as on the wire
	Lifetime  uint16      `json:"lifetime"`
	Reachable uint32      `json:"reachable"`
	Retrans   uint32      `json:"retrans"`
	Prefixes  []c14Prefix `json:"prefixes"`
	MTU       int64       `json:"mtu"` // -1 = no option
	RDNSS     []string    `json:"rdnss"`
	RDNSSLife uint32      `json:"rdnss_life"`
	DNSSL     []string    `json:"dnssl"`
	DNSSLLife uint32      `json:"dnssl_life"`
	RouteLen  int         `json:"route_len"` // -1 = no option
	RoutePref byte        `json:"route_pref"`
	RouteLife uint32      `json:"route_life"`
	RoutePfx  string      `json:"route_prefix"`
	SLLA      bool        `json:"slla"`
	Unknown   bool        `json:"unknown"`
	Order     int         `json:"order"` // rotation of the option list
}

type c14Case struct {
	RAs []c14RA `json:"ras"`
}

func be32(v uint32) []byte { b := make([]byte, 4); binary.BigEndian.PutUint32(b, v); return b }

var c14Routers = []struct {
	mac ref.MAC
	lla netip.Addr
}{
	{ref.MAC{0x00, 0x0a, 0x03, 0x04, 0x05, 0x01}, netip.MustParseAddr("fe80::1:1")},
	{ref.MAC{0x00, 0x0a, 0x03, 0x04, 0x05, 0x02}, netip.MustParseAddr("fe80::2:2")},
}

func (ra c14RA) options() [][]byte {
	var opts [][]byte
	for _, p := range ra.Prefixes {
		o := []byte{3, 4, byte(p.Len), 0}
		if p.OnLink {
			o[3] |= 0x80
		}
		if p.Auto {
			o[3] |= 0x40
		}
		o = append(o, be32(p.Valid)...)
		o = append(o, be32(p.Preferred)...)
		o = append(o, 0, 0, 0, 0)
		o = append(o, netip.MustParseAddr(p.Prefix).AsSlice()...)
		opts = append(opts, o)
	}
	if ra.MTU >= 0 {
		opts = append(opts, append([]byte{5, 1, 0, 0}, be32(uint32(ra.MTU))...))
	}
	if len(ra.RDNSS) > 0 {
		o := append([]byte{25, byte(1 + 2*len(ra.RDNSS)), 0, 0}, be32(ra.RDNSSLife)...)
		for _, s := range ra.RDNSS {
			o = append(o, netip.MustParseAddr(s).AsSlice()...)
		}
		opts = append(opts, o)
	}
	if len(ra.DNSSL) > 0 {
		o := append([]byte{31, 0, 0, 0}, be32(ra.DNSSLLife)...)
		for _, d := range ra.DNSSL {
			o = append(o, ref.EncodeName(ref.Name(strings.Split(d, ".")))...)
		}
		for len(o)%8 != 0 {
			o = append(o, 0)
		}
		o[1] = byte(len(o) / 8)
		opts = append(opts, o)
	}
	if ra.RouteLen >= 0 {
		units := 1
		if ra.RouteLen > 64 {
			units = 3
		} else if ra.RouteLen > 0 {
			units = 2
		}
		o := append([]byte{24, byte(units), byte(ra.RouteLen), ra.RoutePref << 3}, be32(ra.RouteLife)...)
		pf := netip.MustParseAddr(ra.RoutePfx).AsSlice()
		o = append(o, pf[:(units-1)*8]...)
		opts = append(opts, o)
	}
	if ra.SLLA {
		opts = append(opts, append([]byte{1, 1}, c14Routers[ra.Router%2].mac[:]...))
	}
	if ra.Unknown {
		opts = append(opts, []byte{200, 2, 1, 2, 3, 4, 5, 6, 7, 8, 9, 10, 11, 12, 13, 14})
	}
	if n := len(opts); n > 1 {
		k := ra.Order % n
		opts = append(opts[k:], opts[:k]...)
	}
	return opts
}

func (ra c14RA) frame(w gen.World) []byte {
	r := c14Routers[ra.Router%2]
	body := []byte{ra.HopLimit, ra.Flags}
	body = append(body, byte(ra.Lifetime>>8), byte(ra.Lifetime))
	body = append(body, be32(ra.Reachable)...)
	body = append(body, be32(ra.Retrans)...)
	for _, o := range ra.options() {
		body = append(body, o...)
	}
	src, dst := r.lla.As16(), netip.MustParseAddr("ff02::1").As16()
	return ref.Eth(ref.MAC{0x33, 0x33, 0, 0, 0, 1}, r.mac, 0x86dd, ref.IP6(ref.IP6Hdr{PayloadLen: -1, Next: 58, HopLimit: 255, Src: src, Dst: dst}, ref.ICMP6(src, dst, 134, 0, body)))
}

func maskPrefix(s string, bits int) []byte {
	a := netip.MustParseAddr(s)
	p, _ := a.Prefix(bits)
	return p.Addr().AsSlice()
}

func c14RunRouters(tb drv.TB, rec *drv.Rec, sub string, c c14Case) {
	rec.Eval()
	drv.Begin("C14", sub, 'J', mustJSON(c), 30*time.Second)
	defer drv.End()
	w := gen.DefaultWorld()
	s, _ := newSession(defaultNIC())
	defer closeSession(s)
	h, _ := icmp.New6(s)
	defer h.Close()
	buf := make([]byte, packet.EthMaxSize)
	latest := map[int]c14RA{}
	for step, ra := range c.RAs {
		fb := ra.frame(w)
		for k := 0; k < 4; k++ { // the handler processes one RA in four (process-wide counter)
			n := copy(buf, fb)
			var perr, herr error
			if p, sig, st := drv.Catch(func() {
				var fr packet.Frame
				fr, perr = s.Parse(buf[:n])
				if perr == nil {
					herr = h.ProcessPacket(fr)
				}
			}); p != nil {
				rec.Violation(tb, sub, sig, c, "RA %d: processing panicked: %v\n%s", step, p, st)
				return
			}
			if perr != nil || herr != nil {
				rec.Violation(tb, sub, "c14-ra-rejected", c, "RA %d (well-formed) was rejected: parse=%v handler=%v", step, perr, herr)
				return
			}
			for i := range buf { // the receive buffer is reused
				buf[i] = 0xee
			}
		}
		latest[ra.Router%2] = ra
		for ri, want := range latest {
			r := c14Routers[ri]
			got := h.FindRouter(r.lla)
			fail := func(field string, g, e interface{}) {
				rec.Violation(tb, sub, "c14-router-"+field, c, "after RA %d, router %v: %s = %v, advertised %v", step, r.lla, field, g, e)
			}
			if got.Addr.IP != r.lla {
				fail("missing", got.Addr.IP, r.lla)
				return
			}
			if !bytes.Equal(got.Addr.MAC, r.mac[:]) {
				fail("mac", got.Addr.MAC, net.HardwareAddr(r.mac[:]))
				return
			}
			if got.ManagedFlag != (want.Flags&0x80 != 0) || got.OtherCondigFlag != (want.Flags&0x40 != 0) {
				fail("flags", fmt.Sprint(got.ManagedFlag, got.OtherCondigFlag), fmt.Sprintf("%#x", want.Flags))
				return
			}
			if got.Preference != (want.Flags>>3)&3 {
				fail("preference", got.Preference, (want.Flags>>3)&3)
				return
			}
			if got.CurHopLimit != want.HopLimit || got.DefaultLifetime != time.Duration(want.Lifetime)*time.Second || got.ReacheableTime != int(want.Reachable) || got.RetransTimer != int(want.Retrans) {
				fail("timers", fmt.Sprint(got.CurHopLimit, got.DefaultLifetime, got.ReacheableTime, got.RetransTimer), fmt.Sprint(want.HopLimit, want.Lifetime, want.Reachable, want.Retrans))
				return
			}
			if len(got.Prefixes) != len(want.Prefixes) || len(got.Options.Prefixes) != len(want.Prefixes) {
				fail("prefix-count", len(got.Prefixes), len(want.Prefixes))
				return
			}
			// prefixes in wire order: options() puts them first, then rotates the list
			wirePfx := want.Prefixes
			if n := len(want.options()); n > 1 {
				if k := want.Order % n; k < len(want.Prefixes) {
					wirePfx = append(append([]c14Prefix{}, want.Prefixes[k:]...), want.Prefixes[:k]...)
				}
			}
			for i, p := range wirePfx {
				g := got.Prefixes[i]
				if int(g.PrefixLength) != p.Len || g.OnLink != p.OnLink || g.AutonomousAddressConfiguration != p.Auto || g.ValidLifetime != time.Duration(p.Valid)*time.Second || g.PreferredLifetime != time.Duration(p.Preferred)*time.Second || !bytes.Equal(g.Prefix.To16(), maskPrefix(p.Prefix, p.Len)) {
					fail("prefix", fmt.Sprintf("%+v", g), fmt.Sprintf("%+v", p))
					return
				}
			}
			wantMTU := uint32(0)
			if want.MTU >= 0 {
				wantMTU = uint32(want.MTU)
			}
			if uint32(got.Options.MTU) != wantMTU {
				fail("mtu", got.Options.MTU, wantMTU)
				return
			}
			var gotSrv []string
			for _, ip := range got.Options.RDNSS.Servers {
				a, _ := netip.AddrFromSlice(ip)
				gotSrv = append(gotSrv, a.String())
			}
			if strings.Join(gotSrv, ",") != strings.Join(want.RDNSS, ",") || (len(want.RDNSS) > 0 && got.Options.RDNSS.Lifetime != time.Duration(want.RDNSSLife)*time.Second) {
				fail("rdnss", fmt.Sprint(gotSrv, got.Options.RDNSS.Lifetime), fmt.Sprint(want.RDNSS, want.RDNSSLife))
				return
			}
			if strings.Join(got.Options.DNSSearchList.DomainNames, ",") != strings.Join(want.DNSSL, ",") || (len(want.DNSSL) > 0 && got.Options.DNSSearchList.Lifetime != time.Duration(want.DNSSLLife)*time.Second) {
				fail("dnssl", fmt.Sprint(got.Options.DNSSearchList.DomainNames, got.Options.DNSSearchList.Lifetime), fmt.Sprint(want.DNSSL, want.DNSSLLife))
				return
			}
			if want.RouteLen >= 0 {
				ri := got.Options.RouteInformation
				// the statement does not list the route information option among the recorded fields: only
				// consistency is required of it (the library keeps the whole bytes of the prefix, see DESIGN.md)
				wantPfx := maskPrefix(want.RoutePfx, want.RouteLen)[:want.RouteLen/8]
				if int(ri.PrefixLength) != want.RouteLen || byte(ri.Preference) != want.RoutePref || ri.RouteLifetime != time.Duration(want.RouteLife)*time.Second || !bytes.Equal(ri.Prefix, wantPfx) {
					fail("route-information", fmt.Sprintf("%+v", ri), fmt.Sprintf("len=%d pref=%d life=%d prefix=% x", want.RouteLen, want.RoutePref, want.RouteLife, wantPfx))
					return
				}
			} else if got.Options.RouteInformation.Prefix != nil || got.Options.RouteInformation.PrefixLength != 0 {
				fail("route-information-stale", fmt.Sprintf("%+v", got.Options.RouteInformation), "none")
				return
			}
		}
		if _, ok := h.LANRouters[c14Routers[ra.Router%2].lla]; !ok || len(h.LANRouters) != len(latest) {
			rec.Violation(tb, sub, "c14-lanrouters", c, "LANRouters has %d entries after RAs from %d routers", len(h.LANRouters), len(latest))
			return
		}
	}
	nopt := 0
	for _, ra := range c.RAs {
		if n := len(ra.options()); n > nopt {
			nopt = n
		}
		for _, o := range ra.options() {
			rec.Class(fmt.Sprintf("routers: RA option type %d", o[0]))
		}
	}
	rec.Class(fmt.Sprintf("routers: %d RAs in the case", len(c.RAs)))
	if nopt >= 2 {
		rec.NonTrivial(drv.HashJSON(c), func() interface{} { return c })
	}
}

func genC14RA(t *rapid.T, router int) c14RA {
	ra := c14RA{Router: router, HopLimit: rapid.Byte().Draw(t, "hop"), Lifetime: rapid.Uint16().Draw(t, "life"), Reachable: rapid.Uint32().Draw(t, "reach") % 3600001, Retrans: rapid.Uint32().Draw(t, "retrans") % 100000,
		MTU: -1, RouteLen: -1, SLLA: true, Order: rapid.IntRange(0, 7).Draw(t, "order")}
	// flags: M O H Prf P (Prf 10 is reserved: drawn too, the handler records the raw value)
	ra.Flags = byte(rapid.IntRange(0, 63).Draw(t, "flags")) << 2
	pfx := func(l string) string {
		a := [16]byte{0x20, 0x01, 0x0d, 0xb8}
		copy(a[4:], gen.Bytes(t, 12, l))
		return netip.AddrFrom16(a).String()
	}
	for i := rapid.IntRange(0, 3).Draw(t, "nprefix"); i > 0; i-- {
		ra.Prefixes = append(ra.Prefixes, c14Prefix{Len: rapid.SampledFrom([]int{64, 64, 48, 56, 60, 96, 128, 0, 1, 63}).Draw(t, "plen"), OnLink: rapid.Bool().Draw(t, "l"), Auto: rapid.Bool().Draw(t, "a"),
			Valid: rapid.SampledFrom([]uint32{0, 7200, 86400, 0xffffffff, 1}).Draw(t, "valid") + uint32(i), Preferred: rapid.SampledFrom([]uint32{0, 1800, 14400, 0xffffffff}).Draw(t, "pref"), Prefix: pfx("pfx")})
	}
	if rapid.Bool().Draw(t, "mtu") {
		ra.MTU = int64(rapid.SampledFrom([]uint32{1500, 1280, 9000, 0, 0xffffffff, 1492}).Draw(t, "mtuv"))
	}
	// 16 servers and more need an option length above 32 units (> 256 bytes)
	for i := rapid.SampledFrom([]int{0, 1, 2, 3, 0, 1, 2, 3, 15, 16, 17, 40}).Draw(t, "nrdnss"); i > 0; i-- {
		ra.RDNSS = append(ra.RDNSS, pfx("rdnss"))
	}
	ra.RDNSSLife = rapid.SampledFrom([]uint32{0, 600, 0xffffffff, 3}).Draw(t, "rlife")
	for i := rapid.IntRange(0, 3).Draw(t, "ndnssl"); i > 0; i-- {
		ra.DNSSL = append(ra.DNSSL, rapid.SampledFrom([]string{"lan", "home.arpa", "example.com", "a.b.c.d", "corp-net.internal"}).Draw(t, "dom"))
	}
	ra.DNSSLLife = rapid.SampledFrom([]uint32{0, 1200, 0xffffffff}).Draw(t, "dlife")
	if rapid.Bool().Draw(t, "route") {
		ra.RouteLen = rapid.SampledFrom([]int{0, 1, 7, 8, 12, 32, 48, 63, 64, 65, 72, 96, 127, 128}).Draw(t, "rlen")
		ra.RoutePref = rapid.SampledFrom([]byte{0, 1, 3}).Draw(t, "rpref")
		ra.RouteLife = rapid.SampledFrom([]uint32{0, 1800, 0xffffffff}).Draw(t, "rtlife")
		ra.RoutePfx = pfx("route")
	}
	ra.SLLA = rapid.IntRange(0, 3).Draw(t, "slla") != 0
	ra.Unknown = rapid.IntRange(0, 3).Draw(t, "unknown") == 0
	return ra
}

// ---- (a) confinement, synchronous model

type c14Op struct {
	K    string `json:"k"` // start stop ra settle close
	T    int    `json:"t,omitempty"`
	Addr string `json:"addr,omitempty"` // lla | gua | ip4 | none
}

type c14Hunt struct {
	Ops []c14Op `json:"ops"`
}

func c14Target(w gen.World, t int, kind string) packet.Addr {
	a := packet.Addr{MAC: hw(w.Clients[t%4])}
	switch kind {
	case "lla":
		x := netip.MustParseAddr("fe80::100").As16()
		x[15] = byte(t%4 + 1)
		a.IP = netip.AddrFrom16(x)
	case "gua":
		x := netip.MustParseAddr("2001:db8::100").As16()
		x[15] = byte(t%4 + 1)
		a.IP = netip.AddrFrom16(x)
	case "ip4":
		a.IP = netip.AddrFrom4([4]byte{192, 168, 0, byte(20 + t%4)})
	case "ip4ll": // IPv4 link-local: still IPv4
		a.IP = netip.AddrFrom4([4]byte{169, 254, 0, byte(10 + t%4)})
	case "ula":
		x := netip.MustParseAddr("fd00::100").As16()
		x[15] = byte(t%4 + 1)
		a.IP = netip.AddrFrom16(x)
	case "mapped": // IPv4-mapped IPv6: an IPv6 address that is not link-local
		a.IP = netip.AddrFrom16([16]byte{10: 0xff, 11: 0xff, 12: 192, 13: 168, 14: 0, 15: byte(20 + t%4)})
	}
	return a
}

func isForgedNA(in sentInfo, w gen.World) bool {
	if in.kind != "ip6-icmp6" || in.icmp.Type != 136 {
		return false
	}
	lla, ok := in.ndp(2)
	return ok && bytes.Equal(lla, w.HostMAC[:])
}

// spoofLoopsParked waits until every ICMPv6 spoof loop of this process is blocked in
// its select (or gone): everything the preceding call caused to be sent has been sent.
func spoofLoopsParked(max time.Duration) bool {
	deadline := time.Now().Add(max)
	for {
		st := string(stackBuf[:runtime.Stack(stackBuf, true)])
		busy := false
		for _, g := range strings.Split(st, "\n\n") {
			if strings.Contains(g, "handlers/icmp_spoofer/icmp6spoof.go") && !strings.HasPrefix(g[strings.Index(g, "[")+1:], "select") {
				busy = true
				break
			}
		}
		if !busy {
			return true
		}
		if time.Now().After(deadline) {
			return false
		}
		time.Sleep(100 * time.Microsecond)
	}
}

func c14RunHuntSync(tb drv.TB, rec *drv.Rec, sub string, c c14Hunt) {
	rec.Eval()
	drv.Begin("C14", sub, 'J', mustJSON(c), 60*time.Second)
	defer drv.End()
	w := gen.DefaultWorld()
	s, conn := newSession(defaultNIC())
	defer closeSession(s)
	h, _ := icmp.New6(s)
	defer h.Close()
	t0 := time.Now()
	hunted := map[ref.MAC]bool{}
	loops := map[ref.MAC]int{} // spoof loops that may be alive per MAC (one per effective StartHunt; they end when woken while not hunted)
	routers := map[netip.Addr]bool{}
	closed := false
	stopOfStarted, sawNA := false, false
	fail := func(step int, sig, format string, args ...interface{}) bool {
		return rec.Violation(tb, sub, sig, c, "step %d (%+v): %s", step, c.Ops[step], fmt.Sprintf(format, args...))
	}
	buf := make([]byte, packet.EthMaxSize)
	for step, op := range c.Ops {
		mac := w.Clients[op.T%4]
		allowed := map[ref.MAC]int{} // forged NAs this step may cause, per MAC
		pre := hunted[mac]
		if closed { // "The handler is not longer usable after calling Close()": only observe from here on
			op.K = "settle"
			time.Sleep(300 * time.Microsecond)
		}
		switch op.K {
		case "start":
			addr := c14Target(w, op.T, op.Addr)
			var err error
			if p, sig, st := drv.Catch(func() { _, err = h.StartHunt(addr) }); p != nil {
				fail(step, sig, "StartHunt panicked: %v\n%s", p, st)
				return
			}
			switch op.Addr {
			case "ip4", "ip4ll":
				if err == nil {
					fail(step, "c14-starthunt-accepts-ipv4", "StartHunt with the IPv4 address %v returned nil", addr.IP)
					return
				}
			case "gua", "ula", "mapped": // ignored
			default:
				if err != nil {
					fail(step, "c14-starthunt-error", "StartHunt returned %v", err)
					return
				}
				if !hunted[mac] { // a closed handler still lists the MAC; its loop ends at once
					hunted[mac] = true
					if !closed {
						loops[mac]++
						allowed[mac] = len(routers)
					}
				}
			}
		case "stop":
			addr := c14Target(w, op.T, op.Addr)
			if p, sig, st := drv.Catch(func() { h.StopHunt(addr) }); p != nil {
				fail(step, sig, "StopHunt panicked: %v\n%s", p, st)
				return
			}
			if op.Addr == "lla" || op.Addr == "none" || op.Addr == "ip4ll" { // StopHunt acts on every link-local or absent address
				if hunted[mac] && len(routers) > 0 && !closed {
					stopOfStarted = true
				}
				delete(hunted, mac)
			}
		case "ra":
			ra := c14RA{Router: op.T % 2, HopLimit: 64, Lifetime: 1800, MTU: -1, RouteLen: -1, SLLA: true}
			fb := ra.frame(w)
			routers[c14Routers[op.T%2].lla] = true // learned by the first processed RA; loops woken by any of the four
			for k := 0; k < 4; k++ {
				n := copy(buf, fb)
				if p, sig, st := drv.Catch(func() {
					fr, err := s.Parse(buf[:n])
					if err == nil {
						h.ProcessPacket(fr)
					}
				}); p != nil {
					fail(step, sig, "RA processing panicked: %v\n%s", p, st)
					return
				}
				if !spoofLoopsParked(5 * time.Second) {
					fail(step, "c14-loops-not-parked", "spoof loops still running 5 s after an RA")
					return
				}
				if len(hunted) == 0 { // loops are only woken while something is hunted
					continue
				}
				for m, n := range loops {
					if hunted[m] && !closed {
						allowed[m] += n * len(routers)
					} else {
						delete(loops, m) // woken while not hunted: the loop returns
					}
				}
			}
		case "close":
			h.Close()
			closed = true
			loops = map[ref.MAC]int{}
		case "settle":
		}
		if !spoofLoopsParked(5 * time.Second) {
			fail(step, "c14-loops-not-parked", "spoof loops still running 5 s after the call")
			return
		}
		timersMayHaveFired := time.Since(t0) > 1500*time.Millisecond // a loop re-sends by itself after 2.0-2.8 s
		rec.Class(fmt.Sprintf("hunt-sync: %s %s hunted=%v routers>0=%v", op.K, op.Addr, pre, len(routers) > 0))
		got := map[ref.MAC]int{}
		for _, f := range conn.Take() {
			in, sig, msg := decodeSent(f.B, w.HostMAC, true) // unicast MAC + all-nodes address is the documented way to reach an address-less target
			if sig != "" {
				fail(step, sig+"@icmp6-spoofer", "%s", msg)
				return
			}
			if !isForgedNA(in, w) {
				continue
			}
			sawNA = true
			if len(routers) == 0 {
				fail(step, "c14-na-before-router", "forged NA sent although no router has been learned")
				return
			}
			inflight := timersMayHaveFired && (op.K == "close" || op.K == "stop" && in.eth.Dst == mac) // a loop woken by its timer may have passed its check just before this call
			if closed && !inflight {
				fail(step, "c14-na-after-close", "forged NA sent after Close")
				return
			}
			if !hunted[in.eth.Dst] && !inflight {
				fail(step, "c14-na-to-not-hunted", "forged NA sent to %x which is not in the hunt list %v", in.eth.Dst, hunted)
				return
			}
			tgt := netip.AddrFrom16(*(*[16]byte)(in.l4[8:24]))
			if !routers[tgt] || in.l4[4]&0x20 == 0 || in.ip6.HopLimit != 255 {
				fail(step, "c14-na-content", "forged NA for target %v flags %#x hop limit %d; learned routers %v", tgt, in.l4[4], in.ip6.HopLimit, routers)
				return
			}
			got[in.eth.Dst]++
		}
		if !timersMayHaveFired {
			for m, n := range got {
				if n > allowed[m] {
					fail(step, "c14-starthunt-not-idempotent", "%d forged NAs to %x in this step; %d loop(s) x %d router(s) allow %d", n, m, loops[m], len(routers), allowed[m])
					return
				}
			}
		}
	}
	if time.Since(t0) > 1500*time.Millisecond {
		rec.Class("hunt-sync: case ran longer than 1.5 s (count bounds skipped from then on)")
	}
	if stopOfStarted && sawNA {
		rec.NonTrivial(drv.HashJSON(c), func() interface{} { return c })
	}
}

// ---- (a) confinement, real time

func c14RunScenarioRT(sc rtScenario, observe time.Duration) (problems []string, nontrivial bool) {
	w := gen.DefaultWorld()
	s, conn := newSession(defaultNIC())
	defer closeSession(s)
	h, _ := icmp.New6(s)
	defer h.Close()
	// a router is learned first (otherwise nothing is ever sent)
	buf := make([]byte, packet.EthMaxSize)
	fb := c14RA{Router: 0, HopLimit: 64, Lifetime: 1800, MTU: -1, RouteLen: -1, SLLA: true}.frame(w)
	for k := 0; k < 4; k++ {
		n := copy(buf, fb)
		if fr, err := s.Parse(buf[:n]); err == nil {
			h.ProcessPacket(fr)
		}
	}
	conn.Take()
	t0 := time.Now()
	var log []rtEvent
	calls := append([]rtCall(nil), sc.Calls...)
	sort.SliceStable(calls, func(i, j int) bool { return calls[i].At < calls[j].At })
	kinds := []string{"lla", "none", "lla", "lla"}
	for _, c := range calls {
		if d := time.Duration(c.At)*time.Millisecond - time.Since(t0); d > 0 {
			time.Sleep(d)
		}
		switch c.K {
		case "start":
			h.StartHunt(c14Target(w, c.T, kinds[c.T%4]))
		case "stop":
			h.StopHunt(c14Target(w, c.T, kinds[c.T%4]))
		case "close":
			h.Close()
		}
		log = append(log, rtEvent{time.Since(t0), c.K, c.T % 4})
	}
	if d := observe - time.Since(t0); d > 0 {
		time.Sleep(d)
	}
	end := time.Since(t0)
	type span struct{ from, to time.Duration }
	spans := map[int][]span{}
	open := map[int]time.Duration{}
	closedAt := time.Duration(-1)
	for _, e := range log {
		switch e.k {
		case "start":
			if closedAt >= 0 {
				break
			}
			if _, on := open[e.t]; !on {
				open[e.t] = e.at - 50*time.Millisecond
			}
		case "stop":
			if from, on := open[e.t]; on {
				spans[e.t] = append(spans[e.t], span{from, e.at})
				delete(open, e.t)
				if e.at+7*time.Second <= end {
					nontrivial = true
				}
			}
		case "close":
			if closedAt < 0 {
				closedAt = e.at
			}
		}
	}
	for t, from := range open {
		spans[t] = append(spans[t], span{from, end + time.Hour})
	}
	idx := map[ref.MAC]int{}
	for i, m := range w.Clients {
		idx[m] = i
	}
	for _, f := range conn.Take() {
		at := f.At.Sub(t0)
		in, sig, msg := decodeSent(f.B, w.HostMAC, true)
		if sig != "" {
			problems = append(problems, sig+"@icmp6-spoofer: "+msg)
			continue
		}
		if !isForgedNA(in, w) {
			continue
		}
		t, known := idx[in.eth.Dst]
		ok := false
		if known {
			for _, sp := range spans[t] {
				if sp.from <= at && sp.to >= at-time.Second {
					ok = true
				}
			}
		}
		if !ok {
			problems = append(problems, fmt.Sprintf("c14-na-to-not-hunted: forged NA to %x at %v, not hunted within the second before (spans %v)", in.eth.Dst, at, spans[t]))
		}
		if closedAt >= 0 && at > closedAt+time.Second {
			problems = append(problems, fmt.Sprintf("c14-na-after-close: forged NA at %v, handler closed at %v", at, closedAt))
		}
	}
	return
}

func TestC14(t *testing.T) {
	rec := drv.For("C14", c14Rule)
	drv.Prop(t, rec, "routers", 3000, 100000, func(t *rapid.T) c14Case {
		var c c14Case
		for i := rapid.IntRange(1, 4).Draw(t, "nra"); i > 0; i-- {
			c.RAs = append(c.RAs, genC14RA(t, rapid.IntRange(0, 1).Draw(t, "router")))
		}
		// a "twin" of the previous RA: same length and same checksum (16-bit words swapped), different content
		if n := len(c.RAs); n < 4 && rapid.IntRange(0, 2).Draw(t, "twin") == 0 {
			tw := c.RAs[n-1]
			tw.Prefixes = append([]c14Prefix(nil), tw.Prefixes...)
			tw.Reachable, tw.Retrans = tw.Retrans, tw.Reachable
			if len(tw.Prefixes) > 0 {
				tw.Prefixes[0].Valid, tw.Prefixes[0].Preferred = tw.Prefixes[0].Preferred, tw.Prefixes[0].Valid
			}
			tw.RDNSSLife, tw.DNSSLLife = tw.DNSSLLife, tw.RDNSSLife
			if len(tw.RDNSS) == 0 || len(tw.DNSSL) == 0 { // the swap needs both options to keep the sum
				tw.RDNSSLife, tw.DNSSLLife = tw.DNSSLLife, tw.RDNSSLife
			}
			c.RAs = append(c.RAs, tw)
		}
		// the router record has one MAC: a router keeps its source link-layer option over a case
		first := map[int]bool{}
		seen := map[int]bool{}
		for i := range c.RAs {
			r := c.RAs[i].Router % 2
			if !seen[r] {
				seen[r], first[r] = true, c.RAs[i].SLLA
			}
			c.RAs[i].SLLA = first[r]
		}
		return c
	}, func(tb drv.TB, c c14Case) { c14RunRouters(tb, rec, "routers", c) })

	drv.Prop(t, rec, "hunt-sync", 250, 6000, func(t *rapid.T) c14Hunt {
		var c c14Hunt
		for i := rapid.IntRange(3, 25).Draw(t, "nops"); i > 0; i-- {
			op := c14Op{K: rapid.SampledFrom([]string{"start", "start", "start", "stop", "stop", "ra", "ra", "settle", "close"}).Draw(t, "k"), T: rapid.IntRange(0, 3).Draw(t, "t")}
			if op.K == "close" && rapid.IntRange(0, 3).Draw(t, "reallyClose") != 0 {
				op.K = "settle"
			}
			if op.K == "start" || op.K == "stop" {
				op.Addr = rapid.SampledFrom([]string{"lla", "lla", "lla", "none", "none", "gua", "ip4", "ip4ll", "ula", "mapped"}).Draw(t, "addr")
			}
			c.Ops = append(c.Ops, op)
		}
		return c
	}, func(tb drv.TB, c c14Hunt) { c14RunHuntSync(tb, rec, "hunt-sync", c) })

	drv.Prop(t, rec, "realtime", 1, 8, func(t *rapid.T) rtBatch { return genRTBatch(t, 12, 24, true) },
		func(tb drv.TB, b rtBatch) { rtRunBatch(tb, rec, "C14", "realtime", b, c14RunScenarioRT) })
}
