//go:build verif

package harness

import "encoding/json"

func mustJSON(v interface{}) []byte {
	b, err := json.Marshal(v)
	if err != nil {
		panic(err)
	}
	return b
}
