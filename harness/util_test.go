//go:build verif

package harness

import (
	"encoding/json"

	"github.com/irai/packet"
	"github.com/irai/packet/fastlog"
	arp "github.com/irai/packet/handlers/arp_spoofer"
	dhcp4 "github.com/irai/packet/handlers/dhcp4_spoofer"
	dns "github.com/irai/packet/handlers/dns_naming"
	icmp "github.com/irai/packet/handlers/icmp_spoofer"
)

func mustJSON(v interface{}) []byte {
	b, err := json.Marshal(v)
	if err != nil {
		panic(err)
	}
	return b
}

// setLogLevel sets every package logger of the library (process-wide) and returns the function that restores the
// default. level: 0 default (info), 1 error only (a quiet deployment), 2 debug. The checks that use it run their
// cases one after the other inside a shard, so the setting belongs to one case at a time. The listed behaviour of a
// property must not depend on whether a log line is produced.
func setLogLevel(level int) func() {
	lv := fastlog.LevelInfo
	switch level {
	case 1:
		lv = fastlog.LevelError
	case 2:
		lv = fastlog.LevelDebug
	}
	all := []*fastlog.Logger{packet.Logger, arp.Logger, dhcp4.Logger, dns.Logger, dns.LoggerMDNS, icmp.Logger4, icmp.Logger6}
	for _, l := range all {
		l.SetLevel(lv)
	}
	return func() {
		for _, l := range all {
			l.SetLevel(fastlog.LevelInfo)
		}
	}
}
