//go:build verif

package harness

import (
	"fmt"
	"net/netip"
	"testing"
	"time"

	"github.com/irai/packet"
	arp "github.com/irai/packet/handlers/arp_spoofer"
	dhcp4 "github.com/irai/packet/handlers/dhcp4_spoofer"
	dns "github.com/irai/packet/handlers/dns_naming"
	icmp "github.com/irai/packet/handlers/icmp_spoofer"
	"pgregory.net/rapid"
	"verifharness/drv"
	"verifharness/gen"
	"verifharness/ref"
)

// C08 — Protocol handlers terminate without panic on arbitrary packets.

const c08Rule = "protocol-aware frames (ARP, DHCPv4 all message types both ports, ICMPv4 incl. embedded datagrams, ICMPv6/NDP with option lists, DNS, mDNS/LLMNR with every record type in every section, NBNS, SSDP, 802.3 LLC/SNAP/STP/IPX) built by ref, closed under truncation at every offset, count/length/pointer corruption and byte mutation, dispatched by PayloadID exactly as the examples do (Parse, Process*, Notify) in a full-size read buffer and - one in four, and every truncation, unless the bytes could reach the DHCP server, which replies inside the buffer - as a slice without spare capacity; plus raw bytes handed to the exported payload decoders behind their IsValid. oracle = returns within the watchdog budget and does not panic (a panic in a goroutine the handler started takes the shard down and is reported as process-crash); what RA.Options returns without an error must be carried by an intact option of the message. non-trivial = Parse accepted the frame and a handler or decoder was entered; distinct by hash of the bytes"

type c08Env struct {
	s     *packet.Session
	conn  *recConn
	arp   *arp.Handler
	dhcp  *dhcp4.Handler
	icmp4 *icmp.Handler4
	icmp6 *icmp.Handler6
	dns   *dns.DNSHandler
	radvs *icmp.RADVS // set when this environment advertises itself as an IPv6 router
	n     int
}

func newC08Env() *c08Env { return newC08EnvFile("") }

// newC08EnvFile: the DHCP handler keeps its leases in the given file ("" = none).
func newC08EnvFile(leaseFile string) *c08Env {
	e := &c08Env{}
	e.s, e.conn = newSession(defaultNIC())
	e.arp, _ = arp.New(e.s)
	var err error
	e.dhcp, err = dhcp4.Config{Mode: dhcp4.ModeSecondaryServer, NetfilterIP: netip.MustParsePrefix("192.168.0.129/25"), DNSServer: netip.MustParseAddr("8.8.8.8"), LeaseFilename: leaseFile}.New(e.s)
	if err != nil {
		panic("c08: dhcp handler: " + err.Error())
	}
	e.icmp4, _ = icmp.New4(e.s)
	e.icmp6, _ = icmp.New6(e.s)
	e.dns = dns.VerifNew(e.s)
	return e
}

func (e *c08Env) close() {
	if e.radvs != nil {
		e.radvs.Stop()
	}
	e.arp.Close()
	e.dhcp.Close()
	e.icmp6.Close()
	closeSession(e.s)
}

var c08E *c08Env

func c08Get() *c08Env {
	if c08E == nil || c08E.n >= 3000 {
		if c08E != nil {
			c08E.close()
		}
		c08E = newC08Env()
		// some stations are hunted / captured, so that the handlers' branches for them are entered too
		w := gen.DefaultWorld()
		c08E.arp.StartHunt(packet.Addr{MAC: hw(w.Clients[0]), IP: netip.MustParseAddr("192.168.0.2")})
		c08E.icmp6.StartHunt(packet.Addr{MAC: hw(w.Clients[0]), IP: netip.MustParseAddr("fe80::1")})
		c08E.s.Capture(hw(w.Clients[1]))
		// ... and the handler advertises itself as a router (RADVS): advertisements that claim to come from our own
		// link-local address then meet a router record of our own
		c08E.radvs, _ = c08E.icmp6.StartRADVS(false, false, []packet.PrefixInformation{{PrefixLength: 64, OnLink: true, AutonomousAddressConfiguration: true, ValidLifetime: time.Hour, PreferredLifetime: time.Hour, Prefix: netip.MustParseAddr("2001:db8:99::").AsSlice()}}, nil)
	}
	c08E.n++
	return c08E
}

// dispatch mirrors the packet loop of the examples. It reports which processor was entered.
func (e *c08Env) dispatch(b []byte) (entered string, err error) {
	frame, perr := e.s.Parse(b)
	if perr != nil {
		return "", nil
	}
	switch frame.PayloadID {
	case packet.PayloadARP:
		entered, err = "arp", e.arp.ProcessPacket(frame)
	case packet.PayloadDHCP4:
		entered, err = "dhcp4", e.dhcp.ProcessPacket(frame)
	case packet.PayloadICMP4:
		entered, err = "icmp4", e.icmp4.ProcessPacket(frame)
	case packet.PayloadICMP6:
		entered, err = "icmp6", e.icmp6.ProcessPacket(frame)
	case packet.PayloadDNS:
		entered = "dns"
		_, err = e.dns.ProcessDNS(frame)
	case packet.PayloadMDNS, packet.PayloadLLMNR:
		entered = "mdns"
		var ip4, ip6 []packet.IPNameEntry
		ip4, ip6, err = e.dns.ProcessMDNS(frame)
		if frame.Host != nil { // what a caller does with the result
			for _, v := range append(ip4, ip6...) {
				frame.Host.UpdateMDNSName(v.NameEntry)
			}
		}
	case packet.PayloadNBNS:
		entered = "nbns"
		var n packet.NameEntry
		n, err = e.dns.ProcessNBNS(frame.Host, frame.Ether(), frame.Payload())
		if frame.Host != nil && n.Name != "" {
			frame.Host.UpdateNBNSName(n)
		}
	case packet.PayloadSSDP:
		entered = "ssdp"
		var n packet.NameEntry
		n, _, err = e.dns.ProcessSSDP(frame.Host, frame.Ether(), frame.Payload())
		if frame.Host != nil {
			frame.Host.UpdateSSDPName(n)
		}
	case packet.Payload8023:
		entered = "8023"
		_, _, err = packet.Process8023Frame(frame, 14)
	default:
		entered = "other"
	}
	e.s.Notify(frame)
	for {
		select {
		case <-e.s.C:
			continue
		default:
		}
		break
	}
	return entered, err
}

type c08Case struct {
	Data  drv.Hex `json:"data"`
	Times int     `json:"times,omitempty"` // deliver this many times (the ICMPv6 handler processes one RA in four)
	Dec   string  `json:"decoder,omitempty"`
	Log   int     `json:"log,omitempty"`   // level of the package loggers while the frame is processed: 0 info, 1 error, 2 debug
	Tight bool    `json:"tight,omitempty"` // the frame is a slice with no spare capacity (an application that copies frames out of the read buffer before handing them on); never for frames that could reach the DHCP server, which replies inside the buffer
	Aged  bool    `json:"aged,omitempty"`  // the frame comes twice, five minutes apart (the handler's mDNS response cache has expired: dns_naming.VerifExpireMDNSCache)
}

func c08Run(tb drv.TB, rec *drv.Rec, sub string, c c08Case) {
	rec.Eval()
	drv.Begin("C08", sub, 'J', mustJSON(c), 20*time.Second)
	defer drv.End()
	e := c08Get()
	if c.Log != 0 {
		defer setLogLevel(c.Log)()
	}
	times := c.Times
	if times <= 0 {
		times = 1
	}
	buf := make([]byte, packet.EthMaxSize+len(c.Data))
	var entered string
	if c.Aged && times < 2 {
		times = 2
	}
	tight := c.Tight && !c08MayBeDHCP(c.Data)
	for k := 0; k < times; k++ {
		n := copy(buf, c.Data)
		in := buf[:n]
		if tight {
			in = append(make([]byte, 0, n), c.Data...)
			rec.Class("tight buffer")
		}
		var herr error
		if c.Aged && k > 0 {
			e.dns.VerifExpireMDNSCache()
		}
		if p, sig, st := drv.Catch(func() { entered, herr = e.dispatch(in) }); p != nil {
			c08E = nil // a panic may have left a handler lock held: never reuse this environment
			go e.close()
			rec.Violation(tb, sub, sig, c, "handler panicked on a %d byte frame: %v\n%s", len(c.Data), p, st)
			return
		}
		_ = herr
	}
	e.conn.Take()
	if entered != "" {
		rec.Class("entered " + entered)
		rec.NonTrivial(drv.HashBytes(c.Data), func() interface{} { return c08Case{Data: append([]byte(nil), c.Data...), Times: c.Times} })
	}
}

// c08MayBeDHCP: the frame holds 00 43 or 00 44 somewhere (a UDP port 67 / 68 wherever the headers put it).
func c08MayBeDHCP(b []byte) bool {
	for i := 0; i+1 < len(b); i++ {
		if b[i] == 0 && (b[i+1] == 0x43 || b[i+1] == 0x44) {
			return true
		}
	}
	return false
}

// c08Frame draws a protocol frame. It returns the bytes and how often to deliver them.
func c08Frame(t *rapid.T, w gen.World) ([]byte, int, string) {
	cl := rapid.SampledFrom(w.Clients).Draw(t, "client")
	src4 := [4]byte{192, 168, 0, byte(rapid.IntRange(2, 9).Draw(t, "h4"))}
	lla := netip.MustParseAddr("fe80::1").As16()
	lla[15] = byte(rapid.IntRange(1, 9).Draw(t, "h6"))
	v6 := rapid.IntRange(0, 3).Draw(t, "v6") == 0
	udp := func(sp, dp uint16, pl []byte, dst4 [4]byte) []byte {
		if v6 {
			return ref.Eth(ref.MAC{0x33, 0x33, 0, 0, 0, 0xfb}, cl, 0x86dd, ref.IP6(ref.IP6Hdr{PayloadLen: -1, Next: 17, HopLimit: 255, Src: lla, Dst: netip.MustParseAddr("ff02::fb").As16()}, ref.UDP(sp, dp, -1, 0, pl)))
		}
		return ref.Eth(ref.MAC{0xff, 0xff, 0xff, 0xff, 0xff, 0xff}, cl, 0x0800, ref.IP4(ref.IP4Hdr{TotalLen: -1, TTL: 64, Proto: 17, Checksum: -1, Src: src4, Dst: dst4}, ref.UDP(sp, dp, -1, 0, pl)))
	}
	class := rapid.SampledFrom([]string{"arp", "dhcp", "dhcp", "dhcp-client", "icmp4", "icmp6", "icmp6", "dns", "dns", "mdns", "mdns", "mdns", "llmnr", "nbns", "nbns", "ssdp", "8023"}).Draw(t, "class")
	switch class {
	case "arp":
		p := ref.ARPPkt{HType: uint16(rapid.SampledFrom([]int{1, 1, 1, 6}).Draw(t, "ht")), PType: uint16(rapid.SampledFrom([]int{0x0800, 0x0800, 0x86dd}).Draw(t, "pt")), HLen: 6, PLen: rapid.SampledFrom([]byte{4, 4, 4, 16}).Draw(t, "pl"),
			Op: uint16(rapid.SampledFrom([]int{1, 1, 2, 2, 0, 9}).Draw(t, "op")), SHA: w.MAC().Draw(t, "sha"), SPA: w.IP4().Draw(t, "spa"), THA: w.MAC().Draw(t, "tha"), TPA: w.IP4().Draw(t, "tpa")}
		return ref.Eth(ref.MAC{0xff, 0xff, 0xff, 0xff, 0xff, 0xff}, cl, 0x0806, ref.ARP(p)), 1, class
	case "dhcp":
		// Parse classifies UDP port 67/68 as DHCPv4 whatever the IP version: one in eight comes over IPv6
		v6 = rapid.IntRange(0, 7).Draw(t, "dhcpOver6") == 0
		if rapid.Bool().Draw(t, "zeroSrc") {
			src4 = [4]byte{}
		}
		if v6 {
			class = "dhcp-over-ip6"
		}
		return udp(68, 67, gen.DHCPPayload(t, w), [4]byte{255, 255, 255, 255}), 1, class
	case "dhcp-client": // a reply of another server seen on the wire
		v6 = false
		return udp(67, 68, gen.DHCPPayload(t, w), [4]byte{255, 255, 255, 255}), 1, class
	case "icmp4":
		msg := gen.ICMP4Message(t, w)
		if rapid.IntRange(0, 7).Draw(t, "crossFamily") == 0 { // protocol 1 in an IPv6 packet: Parse classifies by protocol number alone
			return ref.Eth(w.HostMAC, cl, 0x86dd, ref.IP6(ref.IP6Hdr{PayloadLen: -1, Next: 1, HopLimit: 64, Src: lla, Dst: w.HostLLA.As16()}, msg)), 1, "icmp4-in-ip6"
		}
		return ref.Eth(w.HostMAC, cl, 0x0800, ref.IP4(ref.IP4Hdr{TotalLen: -1, TTL: 64, Proto: 1, Checksum: -1, Src: src4, Dst: w.HostIP.As4()}, msg)), 1, class
	case "icmp6":
		dst := netip.MustParseAddr("ff02::1").As16()
		switch rapid.IntRange(0, 9).Draw(t, "lla6Special") { // senders that claim a router's address: ours, the real router's
		case 0:
			lla = w.HostLLA.As16()
		case 1:
			lla = w.RouterLLA.As16()
		}
		msg := gen.ICMP6Message(t, lla, dst)
		if rapid.IntRange(0, 7).Draw(t, "crossFamily") == 0 { // protocol 58 in an IPv4 packet
			return ref.Eth(w.HostMAC, cl, 0x0800, ref.IP4(ref.IP4Hdr{TotalLen: -1, TTL: 255, Proto: 58, Checksum: -1, Src: src4, Dst: w.HostIP.As4()}, msg)), 4, "icmp6-in-ip4"
		}
		return ref.Eth(ref.MAC{0x33, 0x33, 0, 0, 0, 1}, cl, 0x86dd, ref.IP6(ref.IP6Hdr{PayloadLen: -1, Next: 58, HopLimit: 255, Src: lla, Dst: dst}, msg)), 4, class
	case "dns":
		m := gen.DNSMsg(t, gen.DNSOptions{Response: rapid.IntRange(0, 4).Draw(t, "resp") != 0})
		b, _, _ := m.Encode(rapid.IntRange(0, 2).Draw(t, "compress"))
		if rapid.IntRange(0, 2).Draw(t, "corrupt") == 0 {
			b, _ = gen.CorruptDNS(t, b)
		}
		return udp(53, uint16(rapid.SampledFrom([]int{53, 40000}).Draw(t, "dport")), b, w.HostIP.As4()), 1, class
	case "mdns", "llmnr":
		m := gen.DNSMsg(t, gen.DNSOptions{MDNS: true, Response: rapid.IntRange(0, 3).Draw(t, "resp") != 0})
		b, _, _ := m.Encode(rapid.IntRange(0, 2).Draw(t, "compress"))
		if rapid.IntRange(0, 2).Draw(t, "corrupt") == 0 {
			b, _ = gen.CorruptDNS(t, b)
		}
		port := uint16(5353)
		if class == "llmnr" {
			port = 5355
		}
		return udp(port, port, b, [4]byte{224, 0, 0, 251}), 1, class
	case "nbns":
		v6 = false
		b := gen.NBNSPayload(t)
		if rapid.IntRange(0, 3).Draw(t, "corrupt") == 0 {
			b, _ = gen.CorruptDNS(t, b)
		}
		return udp(137, 137, b, [4]byte{192, 168, 0, 255}), 1, class
	case "ssdp":
		v6 = false
		return udp(uint16(rapid.SampledFrom([]int{1900, 50000}).Draw(t, "sport")), 1900, gen.SSDPPayload(t), [4]byte{239, 255, 255, 250}), 1, class
	}
	// 802.3
	n := rapid.IntRange(0, 60).Draw(t, "llclen")
	pl := gen.Bytes(t, n, "llc")
	if n >= 3 {
		switch rapid.IntRange(0, 4).Draw(t, "llcKind") {
		case 0:
			pl[0], pl[1], pl[2] = 0x42, 0x42, 0x03
		case 1:
			pl[0], pl[1], pl[2] = 0xaa, 0xaa, 0x03
		case 2:
			pl[0], pl[1] = 0xe0, 0xe0
		}
	}
	return ref.Eth(ref.MAC{0x01, 0x80, 0xc2, 0, 0, 0}, cl, uint16(n), pl), 1, "8023"
}

// ---- payload-level decoders behind their own IsValid

var c08Decoders = []string{"DecodeQuestion", "DecodeAnswers", "RA.Options", "RS.Options", "HopByHop", "DHCP4.ParseOptions", "LLDP"}

func c08RunDecoder(tb drv.TB, rec *drv.Rec, sub string, c c08Case) {
	rec.Eval()
	drv.Begin("C08", sub, 'J', mustJSON(c), 20*time.Second)
	defer drv.End()
	in := exactCopy(c.Data)
	entered := false
	var raOpts *packet.NewOptions
	var raErr error
	p, sig, st := drv.Catch(func() {
		switch c.Dec {
		case "DecodeQuestion":
			if packet.DNS(in).IsValid() == nil {
				entered = true
				packet.DecodeQuestion(packet.DNS(in), 12, make([]byte, 0, 64))
			}
		case "DecodeAnswers":
			if packet.DNS(in).IsValid() == nil {
				entered = true
				e := packet.NewDNSEntry()
				_, off, err := packet.DecodeQuestion(packet.DNS(in), 12, make([]byte, 0, 64))
				if err != nil {
					off = 12
				}
				e.DecodeAnswers(packet.DNS(in), off, make([]byte, 0, 64))
			}
		case "RA.Options":
			if v := packet.ICMP6RouterAdvertisement(in); v.IsValid() == nil {
				entered = true
				opts, err := v.Options()
				if err == nil { // "reported as an error or ignored": what is returned without an error must be in the message
					raOpts, raErr = &opts, nil
				}
			}
		case "RS.Options":
			if v := packet.ICMP6RouterSolicitation(in); v.IsValid() == nil {
				entered = true
				v.Options()
				v.SourceLLA()
			}
		case "HopByHop":
			if v := packet.HopByHopExtensionHeader(in); v.IsValid() {
				entered = true
				v.ParseHopByHopExtensions()
			}
		case "DHCP4.ParseOptions":
			if v := packet.DHCP4(in); v.IsValid() == nil {
				entered = true
				v.ParseOptions()
			}
		case "LLDP":
			if v := packet.LLDP(in); v.IsValid() == nil {
				entered = true
				v.ChassisID()
				v.PortID()
				for tp := 0; tp < 10; tp++ {
					v.GetPDU(tp)
				}
				v.GetPDU(127)
			}
		}
	})
	if p == nil && raOpts != nil && len(in) >= 16 {
		// every prefix the decoder hands back must be carried by a prefix information option of the message that a reference walk
		// of the option list reaches intact (type 3, 32 bytes); a damaged option yields an error or nothing, never a made-up prefix
		type pfx struct {
			l byte
			a [16]byte
		}
		have := map[pfx]bool{}
		lst, _ := ref.ParseNDPOptions(in[16:])
		for _, o := range lst {
			if o.Type == 3 && len(o.Body) == 30 {
				var a [16]byte
				if o.Body[0] <= 128 { // (a length above 128 cannot mask anything: the library keeps the raw length with no prefix)
					copy(a[:], o.Body[14:30])
					for bit := int(o.Body[0]); bit < 128; bit++ {
						a[bit/8] &^= 0x80 >> (bit % 8)
					}
				}
				have[pfx{o.Body[0], a}] = true
			}
		}
		for _, q := range raOpts.Prefixes {
			var a [16]byte
			copy(a[:], q.Prefix.To16())
			if (len(q.Prefix) != 16 && !(q.PrefixLength > 128 && q.Prefix == nil)) || !have[pfx{q.PrefixLength, a}] {
				rec.Violation(tb, sub, "decoder-RA.Options-invented-prefix", c, "RA.Options returned no error and the prefix %v/%d, which no intact prefix information option of the message carries (reference walk: %d options)", q.Prefix, q.PrefixLength, len(lst))
				return
			}
		}
	}
	_ = raErr
	if p != nil {
		rec.Violation(tb, sub, "decoder-"+c.Dec+"-"+sig, c, "%s panicked on %d bytes: %v\n%s", c.Dec, len(in), p, st)
		return
	}
	if entered {
		rec.Class("decoder " + c.Dec)
		rec.NonTrivial(drv.HashBytes([]byte(c.Dec), c.Data), func() interface{} { return c })
	}
}

func TestC08(t *testing.T) {
	rec := drv.For("C08", c08Rule)
	w := gen.DefaultWorld()

	drv.Prop(t, rec, "frames", 20000, 600000, func(t *rapid.T) c08Case {
		b, times, class := c08Frame(t, w)
		mut := ""
		if rapid.IntRange(0, 3).Draw(t, "mutate") == 0 {
			b, mut = gen.Mutate(t, b)
		}
		rec.Class(fmt.Sprintf("gen %s mutated=%v", class, mut != ""))
		return c08Case{Data: b, Times: times, Log: rapid.SampledFrom([]int{0, 0, 0, 1, 2, 2}).Draw(t, "log"), Aged: rapid.IntRange(0, 5).Draw(t, "aged") == 0, Tight: rapid.IntRange(0, 3).Draw(t, "tight") == 0}
	}, func(tb drv.TB, c c08Case) { c08Run(tb, rec, "frames", c) })

	// truncation at every offset of a drawn message
	drv.Prop(t, rec, "truncations", 150, 4000, func(t *rapid.T) c08Case {
		b, times, _ := c08Frame(t, w)
		return c08Case{Data: b, Times: times}
	}, func(tb drv.TB, c c08Case) {
		start := 14
		if len(c.Data) > 500 { // a 300+ byte DHCP body: every offset of the headers and options, not of the zero padding
			start = len(c.Data) - 500
		}
		for n := len(c.Data); n >= start && n >= 0; n-- {
			c08Run(tb, rec, "truncations", c08Case{Data: c.Data[:n], Times: c.Times})
			if !c08MayBeDHCP(c.Data[:n]) {
				c08Run(tb, rec, "truncations", c08Case{Data: c.Data[:n], Times: c.Times, Tight: true})
			}
		}
	})

	// 802.3 frames of every payload length (the processors dump the payload into a fixed-size log line)
	kinds8023 := [][3]byte{{0x42, 0x42, 0x03}, {0xaa, 0xaa, 0x03}, {0xe0, 0xe0, 0x03}, {0x11, 0x22, 0x00}}
	drv.Enum(t, rec, "8023-lengths", 1501*len(kinds8023), func(i int) c08Case {
		n, k := i%1501, kinds8023[i/1501]
		pl := make([]byte, n)
		for j := range pl {
			pl[j] = byte(j*7 + 1)
		}
		copy(pl, k[:])
		return c08Case{Data: ref.Eth(ref.MAC{0x01, 0x80, 0xc2, 0, 0, 0}, w.Clients[i%4], uint16(n), pl), Times: 1}
	}, func(tb drv.TB, c c08Case) { c08Run(tb, rec, "8023-lengths", c) })

	drv.Prop(t, rec, "decoders", 40000, 800000, func(t *rapid.T) c08Case { return genC08Decoder(t, w) }, func(tb drv.TB, c c08Case) { c08RunDecoder(tb, rec, "decoders", c) })
}

func genC08Decoder(t *rapid.T, w gen.World) c08Case {
	dec := rapid.SampledFrom(c08Decoders).Draw(t, "decoder")
	var b []byte
	switch dec {
	case "DecodeQuestion", "DecodeAnswers":
		m := gen.DNSMsg(t, gen.DNSOptions{Response: true, MDNS: rapid.Bool().Draw(t, "mdns")})
		b, _, _ = m.Encode(rapid.IntRange(0, 2).Draw(t, "compress"))
		if rapid.IntRange(0, 1).Draw(t, "corrupt") == 0 {
			b, _ = gen.CorruptDNS(t, b)
		}
	case "RA.Options":
		b = w.ViewBytes(t, "ICMP6RouterAdvertisement")
	case "RS.Options":
		b = w.ViewBytes(t, "ICMP6RouterSolicitation")
	case "HopByHop":
		b = w.ViewBytes(t, "HopByHopExtensionHeader")
	case "DHCP4.ParseOptions":
		b = w.ViewBytes(t, "DHCP4")
	case "LLDP":
		b = w.ViewBytes(t, "LLDP")
	}
	return c08Case{Data: b, Dec: dec}
}
