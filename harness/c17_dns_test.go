//go:build verif

package harness

import (
	"bytes"
	"fmt"
	"net"
	"net/netip"
	"sort"
	"strings"
	"testing"
	"time"

	"github.com/irai/packet"
	dns "github.com/irai/packet/handlers/dns_naming"
	"golang.org/x/net/dns/dnsmessage"
	"pgregory.net/rapid"
	"verifharness/drv"
	"verifharness/gen"
	"verifharness/ref"
)

// C17 — DNS records and names decode as a reference decoder; merges are monotone.

const c17Rule = "DNS / mDNS / NBNS messages serialised by an independent builder from generated structures (names of 1..40+ labels sharing suffixes, compression off / suffix pointers / chains, records of every type in every section, NBNS node-status arrays) and the five crafted malformations (pointer loop, pointer past the end, label past the end, reserved label type, truncated record); ProcessDNS+DNSFind, ProcessMDNS and ProcessNBNS results are compared with the generated structure (and cross-read with dnsmessage); NameEntry.Merge / Host.Update*Name are checked against the merge laws on generated entries and update sequences. non-trivial = message with a compressed name or >= 2 records, or a merge pair differing in >= 1 field; distinct by hash of the message bytes / entry pair"

type c17Case struct {
	Data drv.Hex `json:"data"` // DNS payload
	Kind string  `json:"kind"` // dns | mdns | nbns | malformed:<class>
	// dns: a later response to the same question with further records; the stored entry must then hold the
	// records of both responses
	Second drv.Hex `json:"second,omitempty"`
}

var c17Sess *packet.Session

func c17Session() *packet.Session {
	if c17Sess == nil {
		c17Sess, _ = newSession(defaultNIC())
	}
	return c17Sess
}

func c17Frame(w gen.World, sport, dport uint16, mac ref.MAC, payload []byte) []byte {
	return ref.Eth(w.HostMAC, mac, 0x0800, ref.IP4(ref.IP4Hdr{TotalLen: -1, TTL: 64, Proto: 17, Checksum: -1, Src: [4]byte{192, 168, 0, 7}, Dst: w.HostIP.As4()}, ref.UDP(sport, dport, -1, 0, payload)))
}

// decodeAnswersRef reads header, first question and the answer section with the reference decoder.
type c17Expect struct {
	err    error
	qname  string
	a4     map[netip.Addr]packet.IPResourceRecord
	a6     map[netip.Addr]packet.IPResourceRecord
	cname  map[string]packet.NameResourceRecord
	ptr    map[string]packet.IPResourceRecord
	nstore int
}

func c17Reference(b []byte) (e c17Expect) {
	e.a4, e.a6 = map[netip.Addr]packet.IPResourceRecord{}, map[netip.Addr]packet.IPResourceRecord{}
	e.cname, e.ptr = map[string]packet.NameResourceRecord{}, map[string]packet.IPResourceRecord{}
	if len(b) < 12 {
		e.err = ref.ErrDNSTruncated
		return
	}
	qd, an := int(b[4])<<8|int(b[5]), int(b[6])<<8|int(b[7])
	if qd != 1 {
		e.err = fmt.Errorf("qdcount %d", qd)
		return
	}
	qn, off, err := ref.DecodeName(b, 12)
	if err != nil {
		e.err = err
		return
	}
	if off+4 > len(b) {
		e.err = ref.ErrDNSTruncated
		return
	}
	e.qname = qn.String()
	off += 4
	for i := 0; i < an; i++ {
		owner, next, err := ref.DecodeName(b, off)
		if err != nil {
			e.err = err
			return
		}
		if next+10 > len(b) {
			e.err = ref.ErrDNSTruncated
			return
		}
		typ := uint16(b[next])<<8 | uint16(b[next+1])
		ttl := uint32(b[next+4])<<24 | uint32(b[next+5])<<16 | uint32(b[next+6])<<8 | uint32(b[next+7])
		rdlen := int(b[next+8])<<8 | int(b[next+9])
		rd := next + 10
		if rd+rdlen > len(b) {
			e.err = ref.ErrDNSTruncated
			return
		}
		name := owner.String()
		switch typ {
		case 1:
			if rdlen != 4 {
				e.err = fmt.Errorf("A rdlength %d", rdlen)
				return
			}
			ip := netip.AddrFrom4(*(*[4]byte)(b[rd : rd+4]))
			if _, dup := e.a4[ip]; !dup {
				e.a4[ip] = packet.IPResourceRecord{Name: name, IP: ip, TTL: ttl}
				e.nstore++
			}
		case 28:
			if rdlen != 16 {
				e.err = fmt.Errorf("AAAA rdlength %d", rdlen)
				return
			}
			ip := netip.AddrFrom16(*(*[16]byte)(b[rd : rd+16]))
			if _, dup := e.a6[ip]; !dup {
				e.a6[ip] = packet.IPResourceRecord{Name: name, IP: ip, TTL: ttl}
				e.nstore++
			}
		case 5:
			tgt, _, err := ref.DecodeName(b, rd)
			if err != nil {
				e.err = err
				return
			}
			if _, dup := e.cname[name]; !dup {
				e.cname[name] = packet.NameResourceRecord{Name: name, CName: tgt.String(), TTL: ttl}
				e.nstore++
			}
		case 12:
			if len(owner) != 6 || owner[4] != "in-addr" || owner[5] != "arpa" {
				e.err = fmt.Errorf("PTR owner outside in-addr.arpa") // not generated for valid messages
				return
			}
			ip, perr := netip.ParseAddr(owner[3] + "." + owner[2] + "." + owner[1] + "." + owner[0])
			if perr != nil {
				e.err = perr
				return
			}
			tgt, _, err := ref.DecodeName(b, rd)
			if err != nil {
				e.err = err
				return
			}
			if _, dup := e.ptr[tgt.String()]; !dup {
				e.ptr[tgt.String()] = packet.IPResourceRecord{Name: tgt.String(), IP: ip, TTL: ttl}
				e.nstore++
			}
		}
		off = rd + rdlen
	}
	return
}

func c17RunDNS(tb drv.TB, rec *drv.Rec, sub string, c c17Case) {
	rec.Eval()
	drv.Begin("C17", sub, 'J', mustJSON(c), 20*time.Second)
	defer drv.End()
	if len(c.Data) > 1400 {
		rec.Class("skipped: message larger than one Ethernet frame")
		return
	}
	w := gen.DefaultWorld()
	s := c17Session()
	h := dns.VerifNew(s) // fresh table per case
	fb := c17Frame(w, 53, 40000, w.Clients[0], c.Data)
	buf := make([]byte, packet.EthMaxSize)
	n := copy(buf, fb)
	var got packet.DNSEntry
	var gerr error
	if p, sig, st := drv.Catch(func() {
		fr, perr := s.Parse(buf[:n])
		if perr != nil || fr.PayloadID != packet.PayloadDNS {
			panic(fmt.Sprintf("harness: DNS frame not classified as DNS: %v %v", perr, fr.PayloadID))
		}
		got, gerr = h.ProcessDNS(fr)
	}); p != nil {
		rec.Violation(tb, sub, sig, c, "ProcessDNS panicked: %v\n%s", p, st)
		return
	}
	want := c17Reference(c.Data)
	malformed := strings.HasPrefix(c.Kind, "malformed:")
	fail := func(sig, format string, args ...interface{}) {
		rec.Violation(tb, sub, sig, c, format, args...)
	}
	if malformed {
		rec.Class(c.Kind)
		if want.err == nil {
			return // the crafted damage fell outside the part the handler reads: nothing to claim
		}
		if gerr == nil {
			fail("c17-accepted-"+c.Kind, "a message with a %s was accepted (reference: %v)", strings.TrimPrefix(c.Kind, "malformed:"), want.err)
			return
		}
		if len(h.DNSTable) != 0 {
			fail("c17-stored-"+c.Kind, "a rejected message left %d table entries", len(h.DNSTable))
			return
		}
		rec.NonTrivial(drv.HashBytes([]byte(c.Kind), c.Data), func() interface{} { return c })
		return
	}
	if want.err != nil {
		return // generator produced something the reference itself rejects (e.g. a name over 255 bytes): no claim
	}
	if gerr != nil {
		fail("c17-dns-rejected", "well-formed response rejected: %v", gerr)
		return
	}
	found := h.DNSFind(want.qname)
	if want.nstore == 0 {
		if len(h.DNSTable) != 0 {
			fail("c17-dns-phantom-entry", "response without A/AAAA/CNAME/PTR answers created %d entries", len(h.DNSTable))
		}
		return
	}
	cmp := func(which string, e packet.DNSEntry) bool {
		if e.Name != want.qname {
			fail("c17-dns-qname", "%s: entry name %q, question name %q", which, e.Name, want.qname)
			return false
		}
		if len(e.IP4Records) != len(want.a4) || len(e.IP6Records) != len(want.a6) || len(e.CNameRecords) != len(want.cname) || len(e.PTRRecords) != len(want.ptr) {
			fail("c17-dns-record-count", "%s: %d/%d/%d/%d A/AAAA/CNAME/PTR records, reference %d/%d/%d/%d", which, len(e.IP4Records), len(e.IP6Records), len(e.CNameRecords), len(e.PTRRecords), len(want.a4), len(want.a6), len(want.cname), len(want.ptr))
			return false
		}
		for k, v := range want.a4 {
			if e.IP4Records[k] != v {
				fail("c17-dns-a", "%s: A record %v = %+v, reference %+v", which, k, e.IP4Records[k], v)
				return false
			}
		}
		for k, v := range want.a6 {
			if e.IP6Records[k] != v {
				fail("c17-dns-aaaa", "%s: AAAA record %v = %+v, reference %+v", which, k, e.IP6Records[k], v)
				return false
			}
		}
		for k, v := range want.cname {
			if e.CNameRecords[k] != v {
				fail("c17-dns-cname", "%s: CNAME record %q = %+v, reference %+v", which, k, e.CNameRecords[k], v)
				return false
			}
		}
		for k, v := range want.ptr {
			if e.PTRRecords[k] != v {
				fail("c17-dns-ptr", "%s: PTR record %q = %+v, reference %+v", which, k, e.PTRRecords[k], v)
				return false
			}
		}
		return true
	}
	if !cmp("ProcessDNS result", got) || !cmp("DNSFind", found) {
		return
	}
	if len(c.Second) > 0 && len(c.Second) <= 1400 {
		want2 := c17Reference(c.Second)
		if want2.err == nil {
			n2 := copy(buf, c17Frame(w, 53, 40000, w.Clients[0], c.Second))
			var gerr2 error
			if p, sig, st := drv.Catch(func() {
				fr, perr := s.Parse(buf[:n2])
				if perr == nil && fr.PayloadID == packet.PayloadDNS {
					_, gerr2 = h.ProcessDNS(fr)
				}
			}); p != nil {
				rec.Violation(tb, sub, sig, c, "ProcessDNS of the second response panicked: %v\n%s", p, st)
				return
			}
			if gerr2 != nil {
				fail("c17-dns-rejected", "well-formed second response rejected: %v", gerr2)
				return
			}
			if want2.qname != want.qname {
				// another name: the first entry stays exactly as it was, the second gets its own
				if !cmp("DNSFind of the first name after a response about another name", h.DNSFind(want.qname)) {
					return
				}
				if n := len(h.DNSTable); (want2.nstore == 0 && n != 1) || (want2.nstore > 0 && n != 2) {
					fail("c17-dns-table-size", "two responses about %q and %q (storable records: %d and %d) left %d table entries", want.qname, want2.qname, want.nstore, want2.nstore, n)
					return
				}
				rec.Class("dns: second response about another name")
			}
			missing := ""
			for _, ws := range []c17Expect{want, want2} {
				e := h.DNSFind(ws.qname)
				if ws.nstore == 0 {
					continue
				}
				for k := range ws.a4 {
					if _, ok := e.IP4Records[k]; !ok {
						missing += fmt.Sprintf(" A %v", k)
					}
				}
				for k := range ws.a6 {
					if _, ok := e.IP6Records[k]; !ok {
						missing += fmt.Sprintf(" AAAA %v", k)
					}
				}
				for k := range ws.cname {
					if _, ok := e.CNameRecords[k]; !ok {
						missing += fmt.Sprintf(" CNAME %q", k)
					}
				}
				for k := range ws.ptr {
					if _, ok := e.PTRRecords[k]; !ok {
						missing += fmt.Sprintf(" PTR %q", k)
					}
				}
			}
			if missing != "" {
				fail("c17-dns-second-response-records-lost", "after a second response to the same question the stored entry lacks:%s", missing)
				return
			}
			if want2.qname == want.qname {
				rec.Class("dns: second response to the same question merged")
			}
		}
	}
	// second independent reader of the same bytes (guards the builder)
	var p dnsmessage.Parser
	if _, err := p.Start(c.Data); err == nil {
		if qs, err := p.AllQuestions(); err == nil && len(qs) == 1 {
			if strings.TrimSuffix(qs[0].Name.String(), ".") != want.qname && !strings.ContainsAny(want.qname, "\\") {
				fail("c17-builder-disagrees", "dnsmessage reads question %q, reference %q", qs[0].Name.String(), want.qname)
				return
			}
		}
	}
	rec.NonTrivial(drv.HashBytes(c.Data), func() interface{} { return c })
}

// ---- mDNS

type c17MDNS struct {
	Data drv.Hex `json:"data"`
	MAC  drv.Hex `json:"mac"`
	// an earlier, different response (another transaction id, or the same id from another station) handled by
	// the same handler first: it must not change what is learnt from Data
	Prior    drv.Hex `json:"prior,omitempty"`
	PriorMAC drv.Hex `json:"prior_mac,omitempty"`
}

func c17RunMDNS(tb drv.TB, rec *drv.Rec, sub string, c c17MDNS) {
	rec.Eval()
	drv.Begin("C17", sub, 'J', mustJSON(c), 20*time.Second)
	defer drv.End()
	if len(c.Data) > 1400 {
		rec.Class("skipped: message larger than one Ethernet frame")
		return
	}
	w := gen.DefaultWorld()
	s := c17Session()
	h := dns.VerifNew(s)
	var mac ref.MAC
	copy(mac[:], c.MAC)
	fb := c17Frame(w, 5353, 5353, mac, c.Data)
	buf := make([]byte, packet.EthMaxSize)
	n := copy(buf, fb)
	var ip4, ip6 []packet.IPNameEntry
	var gerr error
	// (a response with the same id from the same station is a retransmission as far as the handler's cache is
	// concerned - but only for a response: a query is never answered from that cache)
	if len(c.Prior) >= 2 && len(c.Prior) <= 1400 && len(c.Data) >= 3 && (!bytes.Equal(c.Prior[:2], c.Data[:2]) || !bytes.Equal(c.PriorMAC, c.MAC) || c.Data[2]&0x80 == 0) {
		var pm ref.MAC
		copy(pm[:], c.PriorMAC)
		pn := copy(buf, c17Frame(w, 5353, 5353, pm, c.Prior))
		if p, sig, st := drv.Catch(func() {
			if fr, perr := s.Parse(buf[:pn]); perr == nil && fr.PayloadID == packet.PayloadMDNS {
				h.ProcessMDNS(fr)
			}
		}); p != nil {
			rec.Violation(tb, sub, sig, c, "ProcessMDNS of the earlier response panicked: %v\n%s", p, st)
			return
		}
		rec.Class(fmt.Sprintf("mdns: after an earlier response, same station=%v same id high byte=%v", bytes.Equal(c.PriorMAC, c.MAC), c.Prior[0] == c.Data[0]))
		n = copy(buf, fb)
	}
	if p, sig, st := drv.Catch(func() {
		fr, perr := s.Parse(buf[:n])
		if perr != nil || fr.PayloadID != packet.PayloadMDNS {
			panic(fmt.Sprintf("harness: mDNS frame not classified: %v %v", perr, fr.PayloadID))
		}
		ip4, ip6, gerr = h.ProcessMDNS(fr)
	}); p != nil {
		rec.Violation(tb, sub, sig, c, "ProcessMDNS panicked: %v\n%s", p, st)
		return
	}
	m, err := ref.DecodeDNS(c.Data)
	if err != nil {
		return // not a well-formed message for the reference: no claim here (C08 covers termination)
	}
	fail := func(sig, format string, args ...interface{}) { rec.Violation(tb, sub, sig, c, format, args...) }
	if m.Flags&0x8000 == 0 { // query: a name is learnt from a *.local. question that is not a service name
		wantName, manuf := "", ""
		for _, q := range m.Questions {
			name := q.Name.String() + "."
			if !strings.HasSuffix(name, "_tcp.local.") && !strings.HasSuffix(name, "_udp.local.") && strings.HasSuffix(name, ".local.") {
				wantName = strings.TrimSuffix(name, ".local.")
			}
			if strings.Contains(name, "sleep-proxy") {
				manuf = "Apple"
			}
		}
		if gerr != nil {
			return
		}
		gotName := ""
		if len(ip4) > 0 {
			gotName = ip4[0].NameEntry.Name
		}
		if (wantName != "" || manuf != "") != (len(ip4) == 1) || gotName != wantName || len(ip6) != 0 {
			fail("c17-mdns-query-name", "query: learnt %q (%d entries), reference %q", gotName, len(ip4), wantName)
			return
		}
		rec.NonTrivial(drv.HashBytes(c.Data), func() interface{} { return c })
		return
	}
	// response: A / AAAA of all sections, in order
	type ent struct {
		name string
		ip   netip.Addr
	}
	var w4, w6 []ent
	model := ""
	for _, r := range m.RRs {
		name := strings.TrimSuffix(r.Name.String()+".", ".local.")
		switch r.Type {
		case 1:
			w4 = append(w4, ent{name, netip.AddrFrom4(*(*[4]byte)(r.RData))})
		case 28:
			w6 = append(w6, ent{name, netip.AddrFrom16(*(*[16]byte)(r.RData))})
		case 16:
			var txt []string
			ok := true
			for d := r.RData; len(d) > 0; {
				l := int(d[0])
				if 1+l > len(d) {
					ok = false
					break
				}
				txt = append(txt, string(d[1:1+l]))
				d = d[1+l:]
			}
			if ok && len(txt) > 2 {
				for _, v := range txt {
					a := strings.Split(v, "=")
					if len(a) >= 2 && (a[0] == "model" || a[0] == "ty" || a[0] == "DvTy" || a[0] == "md") {
						if a[1] != "" {
							model = a[1]
						}
						break
					}
				}
			}
		}
	}
	if gerr != nil {
		// the library's parser (dnsmessage) is stricter than RFC 1035 in places (e.g. compressed SRV targets are
		// skipped, names must be <= 255 bytes): an error is a rejection, which the statement allows for malformed input only
		rec.Class("mdns: library rejected a message the reference accepts: " + gerr.Error())
		var p dnsmessage.Parser
		if _, err := p.Start(c.Data); err == nil {
			if err := p.SkipAllQuestions(); err == nil {
				if _, err := p.AllAnswers(); err == nil {
					if _, err := p.AllAuthorities(); err == nil {
						if _, err := p.AllAdditionals(); err == nil {
							fail("c17-mdns-rejected", "ProcessMDNS rejected a message that both the reference and dnsmessage read completely: %v", gerr)
						}
					}
				}
			}
		}
		return
	}
	chk := func(fam string, got []packet.IPNameEntry, want []ent) bool {
		if len(got) != len(want) {
			fail("c17-mdns-"+fam+"-count", "%s entries: %d, reference %d", fam, len(got), len(want))
			return false
		}
		for i := range want {
			g := got[i]
			if g.NameEntry.Name != want[i].name || g.Addr.IP != want[i].ip || !bytes.Equal(g.Addr.MAC, c.MAC) || g.NameEntry.Model != model || g.NameEntry.Type != "mdns" {
				fail("c17-mdns-"+fam+"-entry", "%s entry %d: name %q ip %v mac %v model %q, reference name %q ip %v mac %v model %q", fam, i, g.NameEntry.Name, g.Addr.IP, g.Addr.MAC, g.NameEntry.Model, want[i].name, want[i].ip, net.HardwareAddr(c.MAC), model)
				return false
			}
		}
		return true
	}
	if !chk("ipv4", ip4, w4) || !chk("ipv6", ip6, w6) {
		return
	}
	if len(m.RRs) >= 2 {
		rec.NonTrivial(drv.HashBytes(c.Data), func() interface{} { return c })
	}
}

// ---- NBNS

type c17NBNS struct {
	Names []gen.NBNSName `json:"names"`
	Stats int            `json:"stats"`
	Trim  int            `json:"trim,omitempty"` // bytes missing at the end of the RDATA (a truncated record)
}

func c17RunNBNS(tb drv.TB, rec *drv.Rec, sub string, c c17NBNS) {
	rec.Eval()
	drv.Begin("C17", sub, 'J', mustJSON(c), 20*time.Second)
	defer drv.End()
	w := gen.DefaultWorld()
	s := c17Session()
	h := dns.VerifNew(s)
	payload := gen.NBNSNodeStatusTrimmed(0x1234, "*", c.Names, len(c.Names), c.Stats, c.Trim)
	fb := c17Frame(w, 137, 137, w.Clients[1], payload)
	buf := make([]byte, packet.EthMaxSize)
	n := copy(buf, fb)
	var got packet.NameEntry
	var gerr error
	if p, sig, st := drv.Catch(func() {
		fr, perr := s.Parse(buf[:n])
		if perr != nil || fr.PayloadID != packet.PayloadNBNS {
			panic(fmt.Sprintf("harness: NBNS frame not classified: %v %v", perr, fr.PayloadID))
		}
		got, gerr = h.ProcessNBNS(fr.Host, fr.Ether(), fr.Payload())
	}); p != nil {
		rec.Violation(tb, sub, sig, c, "ProcessNBNS panicked: %v\n%s", p, st)
		return
	}
	want := ""
	for _, nm := range c.Names {
		if !nm.Group {
			want = strings.TrimRight(nm.Name, " ")
			break
		}
	}
	if c.Trim > c.Stats { // the name array itself is cut: the record must be rejected (no name learnt), never over-read
		rec.Class("nbns: truncated name array")
		if got.Name != "" && got.Name != want {
			rec.Violation(tb, sub, "c17-nbns-truncated-array", c, "truncated node status array (%d bytes missing) produced the name %q", c.Trim, got.Name)
			return
		}
		rec.NonTrivial(drv.HashJSON(c), func() interface{} { return c })
		return
	}
	if gerr != nil || got.Name != want {
		rec.Violation(tb, sub, "c17-nbns-name", c, "node status with names %v: got %q err=%v, first unique name is %q", c.Names, got.Name, gerr, want)
		return
	}
	if len(c.Names) >= 2 {
		rec.NonTrivial(drv.HashJSON(c), func() interface{} { return c })
	}
}

// ---- merge algebra

type c17Merge struct {
	A packet.NameEntry `json:"a"`
	B packet.NameEntry `json:"b"`
}

type c17Update struct {
	Src  int              `json:"src"`
	N    packet.NameEntry `json:"n"`
	Host int              `json:"host,omitempty"` // 0: the station's IPv4 host, 1: its link-local host (same MAC entry)
}

type c17Updates struct {
	Ups []c17Update `json:"ups"`
}

func genNameEntry(t *rapid.T, l string) packet.NameEntry {
	f := func(k string) string {
		return rapid.SampledFrom([]string{"", "", "x", "y", "host-1", "Apple", "x.", ".", "printer.example.com.", " x", "X", "host-1 ", "\x00"}).Draw(t, l+k)
	}
	return packet.NameEntry{Type: rapid.SampledFrom([]string{"", "mdns", "dhcp4"}).Draw(t, l+"type"), Name: f("name"), Model: f("model"), Manufacturer: f("manuf"), OS: f("os")}
}

func c17RunMerge(tb drv.TB, rec *drv.Rec, sub string, c c17Merge) {
	rec.Eval()
	r, mod := c.A.Merge(c.B)
	fields := func(n packet.NameEntry) [4]string { return [4]string{n.Name, n.Model, n.OS, n.Manufacturer} }
	fa, fb, fr := fields(c.A), fields(c.B), fields(r)
	changed := false
	for i := range fa {
		want := fa[i]
		if fb[i] != "" {
			want = fb[i]
		}
		if fr[i] != want {
			rec.Violation(tb, sub, "c17-merge-field", c, "Merge: field %d = %q, want %q (old %q, in %q)", i, fr[i], want, fa[i], fb[i])
			return
		}
		if fa[i] != "" && fr[i] == "" {
			rec.Violation(tb, sub, "c17-merge-erased", c, "Merge erased field %d (%q)", i, fa[i])
			return
		}
		if fr[i] != fa[i] {
			changed = true
		}
	}
	if mod != changed {
		rec.Violation(tb, sub, "c17-merge-modified-flag", c, "Merge reported modified=%v but the attributes changed=%v", mod, changed)
		return
	}
	r2, mod2 := r.Merge(c.B)
	if mod2 || fields(r2) != fields(r) {
		rec.Violation(tb, sub, "c17-merge-idempotence", c, "Merge(Merge(a,b),b) = %+v modified=%v, want %+v false", r2, mod2, r)
		return
	}
	if fa != fb {
		rec.NonTrivial(drv.HashJSON(c), func() interface{} { return c })
	}
}

func c17RunUpdates(tb drv.TB, rec *drv.Rec, sub string, c c17Updates) {
	rec.Eval()
	s, _ := newSession(defaultNIC())
	defer closeSession(s)
	w := gen.DefaultWorld()
	mac := net.HardwareAddr{0, 2, 3, 4, 5, 7}
	s.DHCPv4Update(mac, netip.MustParseAddr("192.168.0.50"), packet.NameEntry{})
	// the same station also uses a link-local address: a second host under the same MAC entry
	lla := netip.MustParseAddr("fe80::50")
	fb := ref.Eth(w.RouterMAC, ref.MAC{0, 2, 3, 4, 5, 7}, 0x86dd, ref.IP6(ref.IP6Hdr{PayloadLen: -1, Next: 59, HopLimit: 64, Src: lla.As16(), Dst: netip.MustParseAddr("ff02::1").As16()}, nil))
	buf := make([]byte, packet.EthMaxSize)
	if fr6, err := s.Parse(buf[:copy(buf, fb)]); err == nil {
		s.Notify(fr6)
	}
	hosts := [2]*packet.Host{s.FindIP(netip.MustParseAddr("192.168.0.50")), s.FindIP(lla)}
	if hosts[0] == nil || hosts[1] == nil || hosts[0].MACEntry != hosts[1].MACEntry {
		tb.Fatalf("c17 updates: could not set up two hosts under one MAC entry")
	}
	frs := [2]packet.Frame{{Host: hosts[0]}, {Host: hosts[1]}}
	for k := range frs {
		s.Notify(frs[k])
	}
	for len(s.C) > 0 {
		<-s.C
	}
	var hostModel [2][5]packet.NameEntry
	var macModel [5]packet.NameEntry
	eq := func(a, b packet.NameEntry) bool {
		return a.Name == b.Name && a.Model == b.Model && a.OS == b.OS && a.Manufacturer == b.Manufacturer
	}
	both := false
	for i, u := range c.Ups {
		src, hi := u.Src%5, u.Host%2
		if hi == 1 {
			both = true
		}
		h := hosts[hi]
		applyName(h, src, u.N)
		var mod bool
		hostModel[hi][src], mod = mergeName(hostModel[hi][src], u.N)
		if mod { // the station's entry accumulates what any of its hosts learned; nothing it knew is erased
			macModel[src], _ = mergeName(macModel[src], hostModel[hi][src])
		}
		for x := 0; x < 2; x++ {
			g := hosts[x]
			gotHost := [5]packet.NameEntry{g.DHCP4Name, g.MDNSName, g.SSDPName, g.LLMNRName, g.NBNSName}
			for k := 0; k < 5; k++ {
				if !eq(gotHost[k], hostModel[x][k]) {
					rec.Violation(tb, sub, "c17-update-fields", c, "after update %d (%s, host %d): host %d holds %+v, model %+v", i, nameSrcType[k], hi, x, gotHost[k], hostModel[x][k])
					return
				}
			}
		}
		gotMAC := [5]packet.NameEntry{h.MACEntry.DHCP4Name, h.MACEntry.MDNSName, h.MACEntry.SSDPName, h.MACEntry.LLMNRName, h.MACEntry.NBNSName}
		for k := 0; k < 5; k++ {
			if !eq(gotMAC[k], macModel[k]) {
				rec.Violation(tb, sub, "c17-update-fields", c, "after update %d (%s, host %d): mac entry holds %+v, model %+v", i, nameSrcType[k], hi, gotMAC[k], macModel[k])
				return
			}
		}
		if h.Dirty() != mod {
			rec.Violation(tb, sub, "c17-update-dirty", c, "after update %d: Dirty()=%v, the update modified=%v", i, h.Dirty(), mod)
			return
		}
		s.Notify(frs[hi]) // clears the pending flag as the packet loop would
		for len(s.C) > 0 {
			<-s.C
		}
	}
	if both {
		rec.Class("updates: both hosts of the station updated")
	}
	if len(c.Ups) >= 2 {
		rec.NonTrivial(drv.HashJSON(c), func() interface{} { return c })
	}
}

// malformed builds one of the five crafted malformations into a valid response.
func c17Malformed(t *rapid.T) c17Case {
	m := gen.DNSMsg(t, gen.DNSOptions{Response: true})
	m.Authority, m.Additional = nil, nil
	if len(m.Answers) == 0 {
		m.Answers = []ref.RR{{Name: m.Questions[0].Name, Type: 1, Class: 1, TTL: 60, A: [4]byte{10, 0, 0, 1}}}
	}
	for i := range m.Answers { // keep record types whose RDATA the handler reads or skips by length
		if m.Answers[i].Type == 12 {
			m.Answers[i].Type, m.Answers[i].A = 1, [4]byte{10, 0, 0, 2}
		}
	}
	b, _, _ := m.Encode(rapid.IntRange(0, 1).Draw(t, "compress"))
	class := rapid.SampledFrom([]string{"pointer-loop", "pointer-past-end", "label-past-end", "reserved-label", "truncated-record"}).Draw(t, "class")
	// the first name after the header is the question name at offset 12; the first answer's owner follows the question
	qEnd := 12 + len(ref.EncodeName(m.Questions[0].Name)) + 4
	where := rapid.SampledFrom([]int{12, qEnd}).Draw(t, "where")
	if where >= len(b) {
		where = 12
	}
	switch class {
	case "pointer-loop":
		if rapid.Bool().Draw(t, "self") || where+4 > len(b) {
			b[where], b[where+1] = 0xc0|byte(where>>8), byte(where)
		} else { // two pointers pointing at each other
			b[where], b[where+1] = 0xc0|byte((where+2)>>8), byte(where+2)
			b[where+2], b[where+3] = 0xc0|byte(where>>8), byte(where)
		}
	case "pointer-past-end":
		tgt := rapid.SampledFrom([]int{len(b), len(b) + 1, 0x3fff}).Draw(t, "tgt")
		b[where], b[where+1] = 0xc0|byte(tgt>>8), byte(tgt)
	case "label-past-end":
		b = b[:where+1]
		b[where] = byte(rapid.IntRange(1, 63).Draw(t, "ll"))
		b = append(b, gen.Bytes(t, rapid.IntRange(0, int(b[where])-1).Draw(t, "have"), "partial")...)
	case "reserved-label":
		b[where] = rapid.SampledFrom([]byte{0x40, 0x41, 0x80, 0xbf}).Draw(t, "lbl")
	case "truncated-record":
		// cut inside the fixed part or the RDATA of the last answer
		cut := rapid.IntRange(qEnd+1, len(b)-1).Draw(t, "cut")
		b = b[:cut]
	}
	return c17Case{Data: b, Kind: "malformed:" + class}
}

func TestC17(t *testing.T) {
	rec := drv.For("C17", c17Rule)
	w := gen.DefaultWorld()

	drv.Prop(t, rec, "dns", 20000, 400000, func(t *rapid.T) c17Case {
		m := gen.DNSMsg(t, gen.DNSOptions{Response: true})
		for i := range m.Answers { // PTR owners are reverse-lookup names (the handler only stores those)
			if m.Answers[i].Type == 12 {
				m.Answers[i].Name = ref.Name{fmt.Sprint(rapid.IntRange(0, 255).Draw(t, "d")), fmt.Sprint(rapid.IntRange(0, 255).Draw(t, "c")), fmt.Sprint(rapid.IntRange(0, 255).Draw(t, "b")), fmt.Sprint(rapid.IntRange(0, 255).Draw(t, "a")), "in-addr", "arpa"}
			}
		}
		mode := rapid.IntRange(0, 2).Draw(t, "compress")
		b, ptrs, hops := m.Encode(mode)
		rec.Class(fmt.Sprintf("dns compression=%d pointers>0=%v chain>=2=%v", mode, ptrs > 0, hops >= 2))
		c := c17Case{Data: b, Kind: "dns"}
		if rapid.IntRange(0, 2).Draw(t, "second") == 0 && len(m.Questions) == 1 {
			m2 := gen.DNSMsg(t, gen.DNSOptions{Response: true})
			if rapid.IntRange(0, 2).Draw(t, "same question") != 0 || len(m2.Questions) != 1 {
				m2.Questions = m.Questions
			}
			for i := range m2.Answers {
				if m2.Answers[i].Type == 12 {
					m2.Answers[i].Name = ref.Name{fmt.Sprint(rapid.IntRange(0, 255).Draw(t, "d2")), "2", "0", "10", "in-addr", "arpa"}
				}
			}
			c.Second, _, _ = m2.Encode(mode)
		}
		return c
	}, func(tb drv.TB, c c17Case) { c17RunDNS(tb, rec, "dns", c) })

	drv.Prop(t, rec, "dns-malformed", 10000, 200000, c17Malformed,
		func(tb drv.TB, c c17Case) { c17RunDNS(tb, rec, "dns-malformed", c) })

	drv.Prop(t, rec, "mdns", 20000, 400000, func(t *rapid.T) c17MDNS {
		m := gen.DNSMsg(t, gen.DNSOptions{MDNS: true, Response: rapid.IntRange(0, 4).Draw(t, "resp") != 0})
		b, _, _ := m.Encode(rapid.SampledFrom([]int{ref.NoCompression, ref.OwnerOnly, ref.SuffixPointers}).Draw(t, "compress"))
		mac := w.UnicastMAC().Draw(t, "mac")
		c := c17MDNS{Data: b, MAC: mac[:]}
		if rapid.IntRange(0, 2).Draw(t, "prior") == 0 && len(b) >= 2 {
			m0 := gen.DNSMsg(t, gen.DNSOptions{MDNS: true, Response: true})
			p, _, _ := m0.Encode(ref.OwnerOnly)
			if len(p) >= 2 {
				d := rapid.SampledFrom([]uint16{1, 2, 0x80, 0xff, 0x100, 0x8000, 0, 0}).Draw(t, "id delta")
				id := (uint16(b[0])<<8 | uint16(b[1])) ^ d
				p[0], p[1] = byte(id>>8), byte(id)
				c.Prior, c.PriorMAC = p, mac[:]
				if d == 0 && !(len(b) >= 3 && b[2]&0x80 == 0 && rapid.Bool().Draw(t, "sameStation")) {
					other := w.UnicastMAC().Draw(t, "prior mac")
					c.PriorMAC = other[:]
				}
			}
		}
		return c
	}, func(tb drv.TB, c c17MDNS) { c17RunMDNS(tb, rec, "mdns", c) })

	drv.Prop(t, rec, "nbns", 10000, 200000, func(t *rapid.T) c17NBNS {
		var c c17NBNS
		for i := rapid.IntRange(0, 8).Draw(t, "n"); i > 0; i-- {
			c.Names = append(c.Names, gen.NBNSName{Name: rapid.StringOfN(rapid.RuneFrom([]rune("ABCDEFGHIJKLMNOPQRSTUVWXYZ0123456789-")), 1, 15, 15).Draw(t, "name"), Suffix: rapid.SampledFrom([]byte{0x00, 0x20}).Draw(t, "suffix"), Group: rapid.IntRange(0, 2).Draw(t, "group") == 0})
		}
		c.Stats = rapid.SampledFrom([]int{0, 46}).Draw(t, "stats")
		if rapid.IntRange(0, 3).Draw(t, "trimmed") == 0 {
			c.Trim = rapid.SampledFrom([]int{1, 2, 17, 18, 19, c.Stats + 1, c.Stats + 2}).Draw(t, "trim")
		}
		return c
	}, func(tb drv.TB, c c17NBNS) { c17RunNBNS(tb, rec, "nbns", c) })

	drv.Prop(t, rec, "merge", 50000, 1000000, func(t *rapid.T) c17Merge {
		return c17Merge{A: genNameEntry(t, "a"), B: genNameEntry(t, "b")}
	}, func(tb drv.TB, c c17Merge) { c17RunMerge(tb, rec, "merge", c) })

	drv.Prop(t, rec, "updates", 1500, 30000, func(t *rapid.T) c17Updates {
		var c c17Updates
		for i := rapid.IntRange(1, 12).Draw(t, "n"); i > 0; i-- {
			c.Ups = append(c.Ups, c17Update{Src: rapid.IntRange(0, 4).Draw(t, "src"), N: genNameEntry(t, "u"), Host: rapid.SampledFrom([]int{0, 0, 1}).Draw(t, "host")})
		}
		return c
	}, func(tb drv.TB, c c17Updates) { c17RunUpdates(tb, rec, "updates", c) })
	_ = sort.Strings
}
