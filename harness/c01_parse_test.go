//go:build verif

package harness

import (
	"fmt"
	"net/netip"
	"reflect"
	"sync"
	"testing"
	"time"
	"unsafe"

	"github.com/irai/packet"
	"pgregory.net/rapid"
	"verifharness/drv"
	"verifharness/gen"
	"verifharness/ref"
)

// C01 — Parsing is total and memory-safe on arbitrary bytes.

const c01Rule = "frames: ref-built frames of every Parse branch with 0-3 mutators (boundary truncation, length-field overwrite, byte flips, padding), header-biased raw bytes, and every prefix of drawn frames; each parsed in three buffers (two spare-capacity fills, cap==len). views: per-view encodings + boundary mutations, every zero-argument getter called by reflection after IsValid accepted. non-trivial = len>=14 and a layer below Ethernet was entered (reference decoder), or a view's IsValid accepted; distinct by hash of the bytes"

type c01Case struct {
	Data drv.Hex `json:"data"`
	View string  `json:"view,omitempty"`
}

// ---- session pool (Parse creates hosts; a fresh session every few thousand cases keeps the tables small)

var (
	c01Mu    sync.Mutex
	c01S     *packet.Session
	c01Count int
)

func c01Session() *packet.Session {
	c01Mu.Lock()
	defer c01Mu.Unlock()
	if c01S == nil || c01Count >= 4000 {
		if c01S != nil {
			closeSession(c01S)
		}
		c01S, _ = newSession(defaultNIC())
		c01Count = 0
	}
	c01Count++
	return c01S
}

// inside reports whether slice (ptr,n) lies within in[0:len(in)].
func inside(in []byte, ptr uintptr, n int) bool {
	if n == 0 {
		return true
	}
	if len(in) == 0 {
		return false
	}
	base := uintptr(unsafe.Pointer(unsafe.SliceData(in)))
	return ptr >= base && ptr+uintptr(n) <= base+uintptr(len(in))
}

func off(in []byte, v []byte) int {
	if v == nil {
		return -1
	}
	if len(in) == 0 {
		return -2
	}
	if len(v) == 0 { // an empty slice at the very end of a cap==len buffer has no meaningful data pointer
		return -3
	}
	return int(uintptr(unsafe.Pointer(unsafe.SliceData(v))) - uintptr(unsafe.Pointer(unsafe.SliceData(in))))
}

type parseObs struct {
	Err      bool
	PID      int
	OffEther int
	OffIP4   int
	OffIP6   int
	OffUDP   int
	OffTCP   int
	OffPay   int
	LenPay   int
	HasIP    bool
	SrcMAC   string
	DstMAC   string
	SrcIP    netip.Addr
	DstIP    netip.Addr
	SrcPort  uint16
	DstPort  uint16
	Host     string
}

// observeParse parses in (a slice whose capacity the caller chose) and checks the
// accessor contract. It returns the observation or a violation description.
func observeParse(s *packet.Session, in []byte) (o parseObs, sig, msg string) {
	var frame packet.Frame
	var err error
	if p, psig, st := drv.Catch(func() { frame, err = s.Parse(in) }); p != nil {
		return o, psig, fmt.Sprintf("Parse panicked on %d bytes (cap %d): %v\n%s", len(in), cap(in), p, st)
	}
	o.Err = err != nil
	if err != nil {
		return o, "", ""
	}
	o.PID = int(frame.PayloadID)
	var ether, ip4, ip6, udp, tcp, pay []byte
	if p, psig, st := drv.Catch(func() {
		ether, ip4, ip6, udp, tcp, pay = frame.Ether(), frame.IP4(), frame.IP6(), frame.UDP(), frame.TCP(), frame.Payload()
		o.HasIP = frame.HasIP()
	}); p != nil {
		return o, "accessor-" + psig, fmt.Sprintf("Frame accessor panicked after Parse returned nil error on %d bytes: %v\n%s", len(in), p, st)
	}
	for name, v := range map[string][]byte{"Ether": ether, "IP4": ip4, "IP6": ip6, "UDP": udp, "TCP": tcp, "Payload": pay} {
		if v != nil && !inside(in, uintptr(unsafe.Pointer(unsafe.SliceData(v))), len(v)) {
			return o, "outside-" + name, fmt.Sprintf("Frame.%s() is not a sub-slice of the input: offset %d len %d, input len %d", name, off(in, v), len(v), len(in))
		}
	}
	for name, m := range map[string][]byte{"SrcAddr.MAC": frame.SrcAddr.MAC, "DstAddr.MAC": frame.DstAddr.MAC} {
		if m != nil && !inside(in, uintptr(unsafe.Pointer(unsafe.SliceData(m))), len(m)) {
			return o, "outside-" + name, fmt.Sprintf("%s is not a sub-slice of the input", name)
		}
	}
	o.OffEther, o.OffIP4, o.OffIP6, o.OffUDP, o.OffTCP, o.OffPay, o.LenPay = off(in, ether), off(in, ip4), off(in, ip6), off(in, udp), off(in, tcp), off(in, pay), len(pay)
	o.SrcMAC, o.DstMAC = string(frame.SrcAddr.MAC), string(frame.DstAddr.MAC)
	o.SrcIP, o.DstIP, o.SrcPort, o.DstPort = frame.SrcAddr.IP, frame.DstAddr.IP, frame.SrcAddr.Port, frame.DstAddr.Port
	if frame.Host != nil {
		o.Host = frame.Host.Addr.IP.String() + "/" + frame.Host.Addr.MAC.String()
	}
	// every zero-argument getter of the views Parse handed out
	for _, v := range []struct {
		name string
		val  interface{}
		raw  []byte
	}{{"Ether", packet.Ether(ether), ether}, {"IP4", packet.IP4(ip4), ip4}, {"IP6", packet.IP6(ip6), ip6}, {"UDP", packet.UDP(udp), udp}, {"TCP", packet.TCP(tcp), tcp}} {
		if v.raw == nil {
			continue
		}
		if s, m := callGetters(v.name, v.val, v.raw, in); s != "" {
			return o, "parse-" + s, "after Parse returned nil error: " + m
		}
	}
	return o, "", ""
}

// ---- reflection over view getters

type getter struct {
	name string
	idx  int
}

var (
	getterCache = map[reflect.Type][]getter{}
	getterMu    sync.Mutex
)

func gettersOf(tp reflect.Type) []getter {
	getterMu.Lock()
	defer getterMu.Unlock()
	if g, ok := getterCache[tp]; ok {
		return g
	}
	var g []getter
	for i := 0; i < tp.NumMethod(); i++ {
		m := tp.Method(i)
		if m.Type.NumIn() != 1 { // receiver only
			continue
		}
		if m.Name == "String" || m.Name == "IsValid" {
			continue // String is C20's subject; IsValid is the guard itself
		}
		g = append(g, getter{m.Name, i})
	}
	getterCache[tp] = g
	return g
}

// checkInside walks a returned value and checks every byte slice lies in `view`.
func checkInside(v reflect.Value, view []byte) (bool, string) {
	switch v.Kind() {
	case reflect.Slice:
		if v.Type().Elem().Kind() == reflect.Uint8 {
			if v.Len() > 0 && !inside(view, v.Pointer(), v.Len()) {
				return false, fmt.Sprintf("returned %d bytes outside the view (view len %d)", v.Len(), len(view))
			}
			return true, ""
		}
		for i := 0; i < v.Len(); i++ {
			if ok, m := checkInside(v.Index(i), view); !ok {
				return false, m
			}
		}
	case reflect.Map:
		it := v.MapRange()
		for it.Next() {
			if ok, m := checkInside(it.Value(), view); !ok {
				return false, m
			}
		}
	}
	return true, ""
}

// callGetters calls every zero-argument getter of a valid view. limit is the
// slice the results must stay inside (the view itself, or the parsed input).
func callGetters(name string, view interface{}, raw []byte, limit []byte) (sig, msg string) {
	rv := reflect.ValueOf(view)
	for _, g := range gettersOf(rv.Type()) {
		var out []reflect.Value
		if p, psig, st := drv.Catch(func() { out = rv.Method(g.idx).Call(nil) }); p != nil {
			return "getter-" + name + "." + g.name + "-" + psig, fmt.Sprintf("%s(%d bytes).%s() panicked although IsValid accepted: %v\n%s", name, len(raw), g.name, p, st)
		}
		// documented builder idiom: Ether.Payload() of a header-only frame returns the spare capacity
		if name == "Ether" && g.name == "Payload" {
			continue
		}
		// results that are decoded copies by design
		if g.name == "Options" || g.name == "ParseHopByHopExtensions" || g.name == "Addrs" && false {
			continue
		}
		for _, o := range out {
			if ok, m := checkInside(o, limit); !ok {
				return "outside-" + name + "." + g.name, fmt.Sprintf("%s(%d bytes).%s(): %s", name, len(raw), g.name, m)
			}
		}
	}
	return "", ""
}

func viewValid(view interface{}) (valid bool, sig, msg string) {
	rv := reflect.ValueOf(view)
	m := rv.MethodByName("IsValid")
	var out []reflect.Value
	if p, psig, st := drv.Catch(func() { out = m.Call(nil) }); p != nil {
		return false, "isvalid-" + psig, fmt.Sprintf("IsValid panicked: %v\n%s", p, st)
	}
	if out[0].Kind() == reflect.Bool {
		return out[0].Bool(), "", ""
	}
	return out[0].IsNil(), "", ""
}

type viewDef struct {
	name string
	mk   func([]byte) interface{}
}

var c01Views = []viewDef{
	{"Ether", func(b []byte) interface{} { return packet.Ether(b) }},
	{"IP4", func(b []byte) interface{} { return packet.IP4(b) }},
	{"IP6", func(b []byte) interface{} { return packet.IP6(b) }},
	{"UDP", func(b []byte) interface{} { return packet.UDP(b) }},
	{"TCP", func(b []byte) interface{} { return packet.TCP(b) }},
	{"ARP", func(b []byte) interface{} { return packet.ARP(b) }},
	{"ICMP", func(b []byte) interface{} { return packet.ICMP(b) }},
	{"ICMPEcho", func(b []byte) interface{} { return packet.ICMPEcho(b) }},
	{"ICMP4Redirect", func(b []byte) interface{} { return packet.ICMP4Redirect(b) }},
	{"ICMP6RouterSolicitation", func(b []byte) interface{} { return packet.ICMP6RouterSolicitation(b) }},
	{"ICMP6RouterAdvertisement", func(b []byte) interface{} { return packet.ICMP6RouterAdvertisement(b) }},
	{"ICMP6NeighborAdvertisement", func(b []byte) interface{} { return packet.ICMP6NeighborAdvertisement(b) }},
	{"ICMP6NeighborSolicitation", func(b []byte) interface{} { return packet.ICMP6NeighborSolicitation(b) }},
	{"ICMP6Redirect", func(b []byte) interface{} { return packet.ICMP6Redirect(b) }},
	{"DHCP4", func(b []byte) interface{} { return packet.DHCP4(b) }},
	{"DNS", func(b []byte) interface{} { return packet.DNS(b) }},
	{"LLC", func(b []byte) interface{} { return packet.LLC(b) }},
	{"SNAP", func(b []byte) interface{} { return packet.SNAP(b) }},
	{"RRCP", func(b []byte) interface{} { return packet.RRCP(b) }},
	{"LLDP", func(b []byte) interface{} { return packet.LLDP(b) }},
	{"IEEE1905", func(b []byte) interface{} { return packet.IEEE1905(b) }},
	{"EthernetPause", func(b []byte) interface{} { return packet.EthernetPause(b) }},
	{"HopByHopExtensionHeader", func(b []byte) interface{} { return packet.HopByHopExtensionHeader(b) }},
	{"Unknown880a", func(b []byte) interface{} { return packet.Unknown880a(b) }},
}

func c01ViewByName(n string) *viewDef {
	for i := range c01Views {
		if c01Views[i].name == n {
			return &c01Views[i]
		}
	}
	return nil
}

// exactCopy returns a copy of b with cap == len (so that any read past the end faults).
func exactCopy(b []byte) []byte {
	c := make([]byte, len(b))
	copy(c, b)
	return c[:len(b):len(b)]
}

// spareCopy returns a copy of b inside a larger backing array whose spare part is filled by fill(i).
func spareCopy(b []byte, spare int, fill func(i int) byte) []byte {
	c := make([]byte, len(b)+spare)
	copy(c, b)
	for i := len(b); i < len(c); i++ {
		c[i] = fill(i)
	}
	return c[:len(b)]
}

func c01RunParse(tb drv.TB, rec *drv.Rec, sub string, data []byte) {
	rec.Eval()
	drv.Begin("C01", sub, 'B', data, 20*time.Second)
	defer drv.End()
	s := c01Session()
	cs := c01Case{Data: data}
	// A: spare capacity continues with header-looking bytes (what a reused receive buffer holds);
	// B: its complement; C: no spare capacity at all.
	src := data
	if len(src) == 0 {
		src = []byte{0x45}
	}
	a := spareCopy(data, 96, func(i int) byte { return src[i%len(src)] })
	b := spareCopy(data, 96, func(i int) byte { return ^src[i%len(src)] })
	c := exactCopy(data)
	var obs [3]parseObs
	for i, in := range [][]byte{c, a, b} {
		o, sig, msg := observeParse(s, in)
		if sig != "" {
			if rec.Violation(tb, sub, sig, cs, "%s", msg) {
				return
			}
		}
		obs[i] = o
	}
	if obs[0] != obs[1] || obs[0] != obs[2] {
		if rec.Violation(tb, sub, "capacity-dependence", cs, "Parse result depends on spare capacity:\n cap==len : %+v\n spare A  : %+v\n spare B  : %+v", obs[0], obs[1], obs[2]) {
			return
		}
	}
	d := ref.Decode(data)
	if len(data) >= 14 && d.Depth >= 1 {
		rec.NonTrivial(drv.HashBytes(data), func() interface{} { return c01Case{Data: append([]byte(nil), data...)} })
	}
}

func c01RunView(tb drv.TB, rec *drv.Rec, sub string, cs c01Case) {
	rec.Eval()
	vd := c01ViewByName(cs.View)
	if vd == nil {
		return
	}
	drv.Begin("C01", sub, 'J', mustJSON(cs), 20*time.Second)
	defer drv.End()
	accepted := false
	for i, in := range [][]byte{exactCopy(cs.Data), spareCopy(cs.Data, 64, func(i int) byte { return 0xa5 })} {
		view := vd.mk(in)
		ok, sig, msg := viewValid(view)
		if sig != "" {
			if rec.Violation(tb, sub, cs.View+"-"+sig, cs, "%s(%d bytes): %s", cs.View, len(in), msg) {
				return
			}
		}
		if !ok {
			continue
		}
		accepted = true
		if sig, msg := callGetters(cs.View, view, in, in); sig != "" {
			if rec.Violation(tb, sub, sig, cs, "%s (copy %d)", msg, i) {
				return
			}
		}
	}
	rec.Class(fmt.Sprintf("view=%s valid=%v", cs.View, accepted))
	if accepted {
		rec.NonTrivial(drv.HashBytes([]byte(cs.View), cs.Data), func() interface{} { return cs })
	}
}

type c01PingReply struct {
	Ping    int  `json:"ping"`    // which in-flight ping's identifier the reply carries
	V6      bool `json:"v6"`      // ICMPv6 echo reply (129) instead of ICMPv4 (0)
	Times   int  `json:"times"`   // the same reply parsed this many times back to back
	Foreign bool `json:"foreign"` // an identifier nobody waits for
	Request bool `json:"request"` // an echo request with that identifier instead of a reply
}

type c01PingCase struct {
	N       int            `json:"n"`
	V6      []bool         `json:"v6"`
	Replies []c01PingReply `json:"replies"`
	Stall   bool           `json:"stall,omitempty"` // the pings are held inside the connection's WriteTo while the replies are parsed
}

// echoFrame builds an ICMP echo frame from a client to our host.
func echoFrame(w gen.World, v6 bool, typ byte, id uint16) []byte {
	var rest [4]byte
	rest[0], rest[1], rest[3] = byte(id>>8), byte(id), 1
	if v6 {
		src, dst := netip.MustParseAddr("fe80::aa").As16(), w.HostLLA.As16()
		body := append(rest[:], []byte("HELLO")...)
		return ref.Eth(w.HostMAC, w.Clients[0], 0x86dd, ref.IP6(ref.IP6Hdr{PayloadLen: -1, Next: 58, HopLimit: 64, Src: src, Dst: dst}, ref.ICMP6(src, dst, typ, 0, body)))
	}
	return ref.Eth(w.HostMAC, w.Clients[0], 0x0800, ref.IP4(ref.IP4Hdr{TotalLen: -1, TTL: 64, Proto: 1, Checksum: -1, Src: [4]byte{192, 168, 0, 5}, Dst: w.HostIP.As4()}, ref.ICMP(typ, 0, rest, []byte("HELLO"), true)))
}

func c01RunPings(tb drv.TB, rec *drv.Rec, sub string, c c01PingCase) {
	rec.Eval()
	drv.Begin("C01", sub, 'J', mustJSON(c), 20*time.Second)
	defer drv.End()
	w := gen.DefaultWorld()
	s, conn := newSession(defaultNIC())
	defer closeSession(s)
	if c.Stall {
		// The transmit path is stalled: every ping sits inside the connection's WriteTo. Parse of echo replies (of any
		// identifier) must still return: it is the packet loop. The writes are released only after Parse came back or
		// 3 s passed, so the verdict does not depend on timing.
		release := conn.setStall()
		defer release()
		started := make(chan struct{}, c.N)
		for i := 0; i < c.N; i++ {
			v6 := c.V6[i]
			go func() {
				defer func() { recover() }()
				started <- struct{}{}
				if v6 {
					s.Ping6(packet.Addr{MAC: hw(w.HostMAC), IP: w.HostLLA}, packet.Addr{MAC: hw(w.Clients[0]), IP: netip.MustParseAddr("fe80::aa")}, 250*time.Millisecond)
				} else {
					s.Ping(packet.Addr{MAC: hw(w.Clients[0]), IP: netip.MustParseAddr("192.168.0.5")}, 250*time.Millisecond)
				}
			}()
		}
		for i := 0; i < c.N; i++ {
			<-started
		}
		time.Sleep(2 * time.Millisecond) // let the pings reach the write
		parsed := make(chan struct{})
		go func() {
			defer close(parsed)
			buf := make([]byte, packet.EthMaxSize)
			for _, v6 := range []bool{false, true} {
				typ := byte(0)
				if v6 {
					typ = 129
				}
				n := copy(buf, echoFrame(w, v6, typ, 0xfff0))
				drv.Catch(func() { s.Parse(buf[:n]) })
			}
		}()
		select {
		case <-parsed:
		case <-time.After(3 * time.Second):
			release()
			rec.Violation(tb, sub, "parse-blocked-by-stalled-send", c, "Parse of an echo reply did not return within 3 s while %d pings were blocked inside the connection's WriteTo", c.N)
			return
		}
		release()
		rec.NonTrivial(drv.HashJSON(c), func() interface{} { return c })
		return
	}
	done := make(chan struct{}, c.N)
	for i := 0; i < c.N; i++ {
		v6 := c.V6[i]
		go func() {
			defer func() { recover(); done <- struct{}{} }()
			if v6 {
				s.Ping6(packet.Addr{MAC: hw(w.HostMAC), IP: w.HostLLA}, packet.Addr{MAC: hw(w.Clients[0]), IP: netip.MustParseAddr("fe80::aa")}, 250*time.Millisecond)
			} else {
				s.Ping(packet.Addr{MAC: hw(w.Clients[0]), IP: netip.MustParseAddr("192.168.0.5")}, 250*time.Millisecond)
			}
		}()
	}
	// learn the identifiers from the echo requests on the wire
	var ids []uint16
	for wait := 0; wait < 400 && len(ids) < c.N; wait++ {
		for _, f := range conn.Take() {
			d := ref.Decode(f.B)
			if (d.PayloadID == ref.PICMP4 || d.PayloadID == ref.PICMP6) && d.OffPayload+6 <= len(f.B) {
				ids = append(ids, uint16(f.B[d.OffPayload+4])<<8|uint16(f.B[d.OffPayload+5]))
			}
		}
		if len(ids) < c.N {
			time.Sleep(500 * time.Microsecond)
		}
	}
	buf := make([]byte, packet.EthMaxSize)
	for _, r := range c.Replies {
		id := uint16(0xfff0)
		if !r.Foreign && r.Ping < len(ids) {
			id = ids[r.Ping]
		}
		typ := byte(0)
		if r.V6 {
			typ = 129
		}
		if r.Request {
			typ = 8
			if r.V6 {
				typ = 128
			}
		}
		fb := echoFrame(w, r.V6, typ, id)
		for k := 0; k < r.Times; k++ {
			n := copy(buf, fb)
			if p, sig, st := drv.Catch(func() { s.Parse(buf[:n]) }); p != nil {
				rec.Violation(tb, sub, sig, c, "Parse of an echo reply (id %d, copy %d) panicked while %d pings were in flight: %v\n%s", id, k+1, c.N, p, st)
				return
			}
		}
	}
	for i := 0; i < c.N; i++ {
		<-done
	}
	rec.NonTrivial(drv.HashJSON(c), func() interface{} { return c })
}

func TestC01(t *testing.T) {
	rec := drv.For("C01", c01Rule)
	w := gen.DefaultWorld()

	drv.Prop(t, rec, "frames", 60000, 1500000, func(t *rapid.T) c01Case {
		f := w.Frame(nil).Draw(t, "frame")
		b, mut := gen.Mutate(t, f.Bytes)
		rec.Class("frame " + f.Class + " " + mutClass(mut))
		return c01Case{Data: b}
	}, func(tb drv.TB, c c01Case) { c01RunParse(tb, rec, "frames", c.Data) })

	drv.Prop(t, rec, "raw", 40000, 1000000, func(t *rapid.T) c01Case {
		return c01Case{Data: gen.RawFrame().Draw(t, "raw")}
	}, func(tb drv.TB, c c01Case) { c01RunParse(tb, rec, "raw", c.Data) })

	// every prefix of a drawn valid frame in one case
	drv.Prop(t, rec, "prefixes", 60, 1200, func(t *rapid.T) c01Case {
		f := w.Frame(nil).Draw(t, "frame")
		b := f.Bytes
		if len(b) > 400 { // keep the sweep affordable: the layers of interest are in the first bytes
			b = b[:400]
		}
		return c01Case{Data: b}
	}, func(tb drv.TB, c c01Case) {
		for n := 0; n <= len(c.Data); n++ {
			c01RunParse(tb, rec, "prefixes", c.Data[:n])
		}
	})

	// Parse of echo replies while pings are in flight (Parse wakes the waiter: shared state behind Parse)
	drv.Prop(t, rec, "pending-pings", 150, 3000, func(t *rapid.T) c01PingCase {
		c := c01PingCase{N: rapid.IntRange(1, 4).Draw(t, "npings"), Stall: rapid.IntRange(0, 7).Draw(t, "stall") == 0}
		for i := 0; i < c.N; i++ {
			c.V6 = append(c.V6, rapid.Bool().Draw(t, "v6"))
		}
		for i := rapid.IntRange(1, 8).Draw(t, "nreplies"); i > 0; i-- {
			c.Replies = append(c.Replies, c01PingReply{Ping: rapid.IntRange(0, c.N-1).Draw(t, "ping"), V6: rapid.Bool().Draw(t, "rv6"), Times: rapid.IntRange(1, 3).Draw(t, "times"),
				Foreign: rapid.IntRange(0, 3).Draw(t, "foreign") == 0, Request: rapid.IntRange(0, 5).Draw(t, "asRequest") == 0})
		}
		return c
	}, func(tb drv.TB, c c01PingCase) { c01RunPings(tb, rec, "pending-pings", c) })

	drv.Prop(t, rec, "views", 60000, 1500000, func(t *rapid.T) c01Case {
		v := rapid.SampledFrom(c01Views).Draw(t, "view")
		return c01Case{View: v.name, Data: w.ViewBytes(t, v.name)}
	}, func(tb drv.TB, c c01Case) { c01RunView(tb, rec, "views", c) })
}

func mutClass(m string) string {
	if m == "" {
		return "unmutated"
	}
	if len(m) > 12 {
		return "multi"
	}
	return m
}
