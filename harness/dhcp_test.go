//go:build verif

package harness

import (
	"bytes"
	"encoding/binary"
	"fmt"
	"net"
	"net/netip"
	"os"
	"strings"
	"time"

	"github.com/irai/packet"
	dhcp4 "github.com/irai/packet/handlers/dhcp4_spoofer"
	"verifharness/drv"
	"verifharness/gen"
	"verifharness/ref"
)

// DHCP history interpreter shared by C11 (uniqueness / reserved addresses),
// C12 (reply contents and transaction conformance) and C18 (persistence).
// The oracle is a wire-level ledger: it only knows what the replies said.

type dhcpCfg struct {
	Net   int    `json:"net"`                   // index into dNets
	Mode  int    `json:"mode"`                  // 1 primary, 2 secondary, 3 secondary-nice
	File  string `json:"file"`                  // lease file ("" = no persistence)
	Quiet bool   `json:"quiet"`                 // the package loggers are set to error level (a quiet deployment): behaviour must not depend on it
	Debug bool   `json:"debug,omitempty"`       // ... or to debug level
	DNS   int    `json:"dns,omitempty"`         // configured DNS server: 0 = 8.8.4.4, 1 = 9.9.9.9, 2 = not configured (documented default: the router)
	NF    int    `json:"nf,omitempty"`          // netfilter prefix: 0 = the net's own, 1 = same gateway address, one bit longer mask
	Pre   []int  `json:"precaptured,omitempty"` // MAC indices the session already reports as captured when the handler is constructed
}

func (c dhcpCfg) dns() netip.Addr {
	switch c.DNS {
	case 1:
		return netip.MustParseAddr("9.9.9.9")
	case 2:
		return dNets[c.Net].router
	}
	return netip.MustParseAddr("8.8.4.4")
}

// dnsConfig is what is put into Config.DNSServer.
func (c dhcpCfg) dnsConfig() netip.Addr {
	if c.DNS == 2 {
		return netip.Addr{}
	}
	return c.dns()
}

func (c dhcpCfg) netfilter() netip.Prefix {
	n := dNets[c.Net].netfilter
	if c.NF == 1 {
		return netip.PrefixFrom(n.Addr(), n.Bits()+1)
	}
	return n
}

var dNets = []struct {
	home      netip.Prefix
	host      netip.Addr
	router    netip.Addr
	netfilter netip.Prefix // address = our gateway address on the captured subnet
}{
	{netip.MustParsePrefix("10.1.2.16/28"), netip.MustParseAddr("10.1.2.17"), netip.MustParseAddr("10.1.2.30"), netip.MustParsePrefix("10.1.2.17/29")},
	{netip.MustParsePrefix("192.168.0.0/24"), netip.MustParseAddr("192.168.0.129"), netip.MustParseAddr("192.168.0.11"), netip.MustParsePrefix("192.168.0.129/25")},
	{netip.MustParsePrefix("192.168.1.0/25"), netip.MustParseAddr("192.168.1.2"), netip.MustParseAddr("192.168.1.1"), netip.MustParsePrefix("192.168.1.66/26")},
	// a home LAN wider than /24: addresses of both halves share their last octet
	{netip.MustParsePrefix("192.168.2.0/23"), netip.MustParseAddr("192.168.3.129"), netip.MustParseAddr("192.168.2.11"), netip.MustParsePrefix("192.168.3.129/25")},
	// the handler's default configuration (dhcp4_spoofer.New): the netfilter subnet is the whole home LAN with our address as
	// gateway - captured and other clients share one address range, and the real router's address lies inside the netfilter subnet
	{netip.MustParsePrefix("192.168.4.0/24"), netip.MustParseAddr("192.168.4.129"), netip.MustParseAddr("192.168.4.11"), netip.MustParsePrefix("192.168.4.129/24")},
}

// client identities: two keyed by chaddr / a conventional client-id, two sharing one chaddr with different client-ids
var dClients = []struct {
	mac int
	cid []byte
}{
	{mC1, nil},
	{mC2, append([]byte{1}, hMACs[mC2][:]...)},
	{mC3, []byte("idA")},
	{mC3, []byte("idB")},
	{mC4, nil},
	// a long client identifier (RFC 4361 style DUID, 52 octets): replies that echo it carry more than the 60 bytes
	// of options that fit the 300-byte BOOTP minimum
	{mC5, append([]byte{255, 0xaa, 0xbb, 0xcc, 0xdd, 0, 2}, bytes.Repeat([]byte{0xd1, 0x1d}, 22)...)},
	// the same station as k0 presenting the conventional identifier (type 1 + its MAC): 7 bytes that differ from
	// k0's implicit identifier (the bare chaddr) only by the leading type octet - still another client
	{mC1, append([]byte{1}, hMACs[mC1][:]...)},
}

const dN = 7 // number of client identities

func (c dhcpCfg) nic() nicCfg {
	w := gen.DefaultWorld()
	n := dNets[c.Net]
	w.LAN, w.HostIP, w.RouterIP = n.home, n.host, n.router
	w.HostMAC, w.RouterMAC = hMACs[mOwn], hMACs[mRouter]
	return nicCfg{W: w}
}

type dOp struct {
	K     string `json:"k"` // discover request decline release capture uncapture tick foreign
	C     int    `json:"c,omitempty"`
	Req   string `json:"req,omitempty"`  // address class, resolved against the ledger at run time
	Kind  string `json:"kind,omitempty"` // request: sel-ours sel-other renew rebind reboot
	XID   int    `json:"xid,omitempty"`  // discover: xid index; request: 0 = the xid of the client's last discover, n>0 = fresh
	Name  int    `json:"name,omitempty"`
	PRL   int    `json:"prl,omitempty"`
	Bcast bool   `json:"bcast,omitempty"`
	Srv   string `json:"srv,omitempty"` // decline/release: ours other
	D     int    `json:"d,omitempty"`   // tick: 0 = +1 min, 1 = +5 h
	VC    int    `json:"vc,omitempty"`  // vendor class (option 60): 0 none, 1 "MSFT 5.0", 2 "PXEClient:Arch:00000:UNDI:002001", 3 "android-dhcp-13"
	LT    int    `json:"lt,omitempty"`  // requested lease time (option 51): 0 none, 1 ten minutes, 2 infinite - the ACK's own lease time is what binds
	Spoof bool   `json:"spoof,omitempty"`
	FMAC  int    `json:"fmac,omitempty"` // foreign: MAC index
}

func (o dOp) String() string {
	switch o.K {
	case "discover":
		return fmt.Sprintf("discover(k%d,req=%s,xid%d%s)", o.C, o.Req, o.XID, map[bool]string{true: ",spoof-next-id"}[o.Spoof])
	case "request":
		return fmt.Sprintf("request(k%d,%s,req=%s,xid%d%s)", o.C, o.Kind, o.Req, o.XID, map[bool]string{true: ",spoof-next-id"}[o.Spoof])
	case "decline", "release":
		return fmt.Sprintf("%s(k%d,%s,srv=%s)", o.K, o.C, o.Req, o.Srv)
	case "capture", "uncapture":
		return fmt.Sprintf("%s(k%d)", o.K, o.C)
	case "tick":
		return fmt.Sprintf("tick(%d)", o.D)
	case "purge":
		return "session-purge"
	case "age":
		return fmt.Sprintf("age(%d)", o.D)
	case "foreign":
		return fmt.Sprintf("foreign(%s,%s)", hMACName[o.FMAC], o.Req)
	}
	return o.K
}

type dhcpHistory struct {
	Cfg dhcpCfg `json:"cfg"`
	Ops []dOp   `json:"ops"`
}

func dhcpHistString(h dhcpHistory) string {
	var sb strings.Builder
	fmt.Fprintf(&sb, "net=%d mode=%d:", h.Cfg.Net, h.Cfg.Mode)
	for _, o := range h.Ops {
		sb.WriteString(" " + o.String())
	}
	return sb.String()
}

var dPRLs = [][]byte{nil, {1, 3, 6, 15, 119, 252}, {1, 121, 3, 6, 15}, {3, 1, 6, 51}, {1, 33, 3, 6, 15, 26, 28, 51, 58, 59}}
var dNames = []string{"", "host-a", "host-b"}

// ---- ledger

type dOffer struct {
	ip      netip.Addr
	xid     [4]byte
	ok      bool // outstanding
	expired bool // made, but a tick has passed since (offers are good for seconds): either outcome accepted
}

type dLedger struct {
	holder  map[netip.Addr]int // address -> identity index currently acknowledged
	offered [dN]dOffer         // outstanding offer per identity
	lastXID [dN][4]byte
	capt    [dN]bool
	// may[c] is the address the server may still regard as c's lease (C12: an ACK of it is legitimate).
	// It is kept generously (until the lease time has passed or the client declines it), whereas holder
	// is dropped eagerly: each side errs towards accepting.
	may [dN]netip.Addr
	// virtual clock of the lease table: elapsed is the wall-clock time that the "age" steps have let pass so far,
	// ackAt[c] its value when c's lease was (last) acknowledged. Every lease lasts dLeaseTime.
	elapsed time.Duration
	ackAt   [dN]time.Duration
}

const dLeaseTime = 4 * time.Hour

// expire forgets the leases that have run out when extra more time has passed (extra = 0: by now).
func (l *dLedger) expire(extra time.Duration) {
	for ip, k := range l.holder {
		if l.elapsed-l.ackAt[k]+extra > dLeaseTime {
			delete(l.holder, ip)
		}
	}
	for k := range l.may {
		if l.may[k].IsValid() && l.elapsed-l.ackAt[k]+extra > dLeaseTime {
			l.may[k] = netip.Addr{}
		}
	}
}

func (l *dLedger) holding(c int) (netip.Addr, bool) {
	for ip, k := range l.holder {
		if k == c {
			return ip, true
		}
	}
	return netip.Addr{}, false
}

func (l *dLedger) drop(c int) {
	for ip, k := range l.holder {
		if k == c {
			delete(l.holder, ip)
		}
	}
}

type dhcpOracles struct {
	C11 bool
	C12 bool
	// Frames receives every frame the step emitted (server replies and client-side frames alike).
	Frames func(step int, op dOp, frames []sentFrame) (sig, msg string)
	// AfterAck is called after every ACK (C18 snapshots the lease file here).
	AfterAck func(step int, l *dLedger)
}

type dhcpResult struct {
	Served        map[int]bool // identities that received an OFFER or ACK
	ReservedReq   bool         // a reserved / foreign address was requested
	ToggleBetween bool         // capture toggled between an OFFER and the next REQUEST of that client
	MustNotAck    int          // requests that must not be acknowledged
	Acks, Offers  int
	Naks          int
}

type dhcpEnv struct {
	s    *packet.Session
	conn *recConn
	h    *dhcp4.Handler
	cfg  dhcpCfg
	rx   []byte
}

func newDHCPEnv(c dhcpCfg) (*dhcpEnv, error) {
	s, conn := newSession(c.nic())
	for _, m := range c.Pre { // the application restores its capture list before it starts the DHCP handler
		s.Capture(hwOf(hMACs[m%len(hMACs)]))
	}
	h, err := dhcp4.Config{Mode: dhcp4.Mode(c.Mode), NetfilterIP: c.netfilter(), DNSServer: c.dnsConfig(), LeaseFilename: c.File}.New(s)
	if err != nil {
		closeSession(s)
		return nil, err
	}
	return &dhcpEnv{s: s, conn: conn, h: h, cfg: c}, nil
}

func (e *dhcpEnv) close() {
	e.h.Close()
	closeSession(e.s)
}

// subnet the client belongs to by its capture state
func (c dhcpCfg) subnet(captured bool) (lan netip.Prefix, gw netip.Addr, dns netip.Addr) {
	n := dNets[c.Net]
	if captured {
		return c.netfilter().Masked(), c.netfilter().Addr(), netip.MustParseAddr("1.1.1.3")
	}
	return n.home, n.router, c.dns()
}

func bcastOf(p netip.Prefix) netip.Addr {
	a := p.Masked().Addr().As4()
	v := binary.BigEndian.Uint32(a[:]) | (1<<uint(32-p.Bits()) - 1)
	var b [4]byte
	binary.BigEndian.PutUint32(b[:], v)
	return netip.AddrFrom4(b)
}

// deliver sends one client frame through Parse -> ProcessPacket -> Notify in an EthMaxSize buffer.
func (e *dhcpEnv) deliver(frame []byte, afterParse ...func()) (perr, herr error, p interface{}, sig, st string) {
	// one receive buffer per environment, reused for every frame as a read loop does
	if e.rx == nil {
		e.rx = make([]byte, packet.EthMaxSize)
	}
	buf := e.rx
	for i := range buf {
		buf[i] = 0
	}
	n := copy(buf, frame)
	p, sig, st = drv.Catch(func() {
		var fr packet.Frame
		fr, perr = e.s.Parse(buf[:n])
		if perr != nil {
			return
		}
		for _, f := range afterParse {
			f()
		}
		if fr.PayloadID == packet.PayloadDHCP4 {
			herr = e.h.ProcessPacket(fr)
		}
		e.s.Notify(fr)
	})
	for { // keep the notification channel empty
		select {
		case <-e.s.C:
			continue
		default:
		}
		break
	}
	return
}

type dhcpReply struct {
	msg   ref.DHCPMsg
	eth   ref.EthView
	ip    ref.IP4View
	udp   ref.UDPView
	raw   []byte
	parse error
}

// serverReplies extracts the frames sent from UDP port 67 (our server side).
func serverReplies(frames []sentFrame) (out []dhcpReply) {
	for _, f := range frames {
		ev, err := ref.ParseEth(f.B)
		if err != nil || ev.Type != 0x0800 {
			continue
		}
		iv, err := ref.ParseIP4(ev.Payload)
		if err != nil || iv.Proto != 17 {
			continue
		}
		uv, err := ref.ParseUDP(iv.Payload)
		if err != nil || uv.Sport != 67 {
			continue
		}
		m, perr := ref.DecodeDHCP(uv.Payload)
		out = append(out, dhcpReply{msg: m, eth: ev, ip: iv, udp: uv, raw: f.B, parse: perr})
	}
	return
}

func runDHCP(tb drv.TB, rec *drv.Rec, sub string, h dhcpHistory, or dhcpOracles) (res dhcpResult) {
	res.Served = map[int]bool{}
	env, err := newDHCPEnv(h.Cfg)
	if err != nil {
		rec.Violation(tb, sub, "dhcp-new-failed", h, "dhcp handler construction failed: %v", err)
		return
	}
	defer env.close()
	runDHCPOn(tb, rec, sub, h, or, env, &res, &dLedger{holder: map[netip.Addr]int{}})
	return
}

func runDHCPOn(tb drv.TB, rec *drv.Rec, sub string, h dhcpHistory, or dhcpOracles, env *dhcpEnv, res *dhcpResult, led *dLedger) {
	if h.Cfg.Quiet || h.Cfg.Debug { // process-wide setting: histories run one after the other in a shard
		lv := 1
		if h.Cfg.Debug {
			lv = 2
		}
		defer setLogLevel(lv)()
	}
	n := dNets[h.Cfg.Net]
	ourID := n.host
	violate := func(step int, sig, format string, args ...interface{}) bool {
		return rec.Violation(tb, sub, sig, h, "step %d (%v): %s\nhistory: %s", step, h.Ops[step], fmt.Sprintf(format, args...), dhcpHistString(h))
	}
	offerPendingCapture := [dN]bool{} // capture state when the outstanding offer was made
	fresh := 0
	for step, op := range h.Ops {
		cl := dClients[op.C%dN]
		mac := hMACs[cl.mac]
		ident := op.C % dN
		if op.Spoof && (op.K == "discover" || op.K == "request" || op.K == "decline" || op.K == "release") {
			ident = (op.C + 1) % dN // the identity is the client identifier presented, whatever chaddr it comes from
		}
		captured := env.s.IsCaptured(hwOf(mac))
		lan, gw, dns := h.Cfg.subnet(captured)
		// resolve the address class
		resolve := func(class string) netip.Addr {
			switch class {
			case "offered":
				if led.offered[ident].ok || led.offered[ident].expired {
					return led.offered[ident].ip
				}
			case "current":
				if ip, ok := led.holding(ident); ok {
					return ip
				}
			case "other": // the lowest address held by (else offered to) somebody else
				var best netip.Addr
				for ip, k := range led.holder {
					if k != ident && (!best.IsValid() || ip.Less(best)) {
						best = ip
					}
				}
				if best.IsValid() {
					return best
				}
				for k, o := range led.offered {
					if k != ident && o.ok {
						return o.ip
					}
				}
			case "twin": // in a LAN wider than /24: a free address that shares its last octet with the lowest held one
				var best netip.Addr
				for ip := range led.holder {
					if !best.IsValid() || ip.Less(best) {
						best = ip
					}
				}
				if best.IsValid() {
					a := best.As4()
					for d := 1; d < 4; d++ {
						t := netip.AddrFrom4([4]byte{a[0], a[1], a[2] ^ byte(d), a[3]})
						if _, held := led.holder[t]; !held && lan.Contains(t) && t != n.host && t != n.router && t != bcastOf(lan) && t != lan.Masked().Addr() && env.s.FindIP(t) == nil {
							return t
						}
					}
				}
			case "free":
				for ip := lan.Addr().Next(); lan.Contains(ip) && ip != bcastOf(lan); ip = ip.Next() {
					if _, held := led.holder[ip]; held || ip == n.host || ip == n.router || env.s.FindIP(ip) != nil {
						continue
					}
					taken := false
					for _, o := range led.offered {
						if o.ok && o.ip == ip {
							taken = true
						}
					}
					if !taken {
						return ip
					}
				}
			case "offsubnet":
				return netip.MustParseAddr("8.8.8.8")
			case "network":
				return lan.Masked().Addr()
			case "broadcast":
				return bcastOf(lan)
			case "router":
				return n.router
			case "host":
				return n.host
			case "othersubnet": // inside the home LAN but outside the captured subnet (or the reverse)
				for ip := n.home.Addr().Next(); n.home.Contains(ip) && ip != bcastOf(n.home); ip = ip.Next() {
					if h.Cfg.netfilter().Masked().Contains(ip) == captured || ip == n.host || ip == n.router {
						continue
					}
					if _, held := led.holder[ip]; !held {
						return ip
					}
				}
			}
			return netip.Addr{}
		}
		reqIP := resolve(op.Req)
		var frame []byte
		var xid [4]byte
		mustNotAck := false
		mustNotAckWhy := ""
		isDHCP := false
		switch op.K {
		case "discover", "request", "decline", "release":
			isDHCP = true
			m := ref.DHCPMsg{Op: 1, HType: 1, HLen: 6, CHAddr: mac}
			cid := cl.cid
			if op.Spoof { // another identity's client-id presented from this chaddr
				cid = dClients[ident].cid
				if cid == nil {
					cid = hMACs[dClients[ident].mac][:]
				}
				rec.Class("spoofed client-id")
			}
			src, dst := [4]byte{}, [4]byte{255, 255, 255, 255}
			dstMAC := ref.MAC{0xff, 0xff, 0xff, 0xff, 0xff, 0xff}
			switch op.K {
			case "discover":
				xid = [4]byte{0xd0, byte(ident), byte(op.XID), 1}
				led.lastXID[ident] = xid
				if os.Getenv("VERIF_C11_STRICT") == "" {
					led.drop(ident) // a client sends DISCOVER from the INIT state only: it no longer uses its previous address
				}
				m.Options = append(m.Options, ref.DHCPOpt{Code: 53, Data: []byte{1}})
				if reqIP.IsValid() {
					m.Options = append(m.Options, ref.DHCPOpt{Code: 50, Data: reqIP.AsSlice()})
					if op.Req != "free" && op.Req != "current" && op.Req != "offered" {
						res.ReservedReq = true
					}
				}
			case "request":
				if op.XID == 0 {
					xid = led.lastXID[ident]
				} else {
					fresh++
					xid = [4]byte{0xf0, byte(ident), byte(op.XID), byte(fresh)}
				}
				m.Options = append(m.Options, ref.DHCPOpt{Code: 53, Data: []byte{3}})
				switch op.Kind {
				case "sel-ours", "sel-other":
					srv := ourID
					if op.Kind == "sel-other" {
						srv = n.router
						mustNotAck, mustNotAckWhy = true, "request names another server"
					}
					m.Options = append(m.Options, ref.DHCPOpt{Code: 54, Data: srv.AsSlice()})
					if reqIP.IsValid() {
						m.Options = append(m.Options, ref.DHCPOpt{Code: 50, Data: reqIP.AsSlice()})
					}
				case "renew-other": // a renewal (ciaddr, no requested address) that carries another server's identifier
					mustNotAck, mustNotAckWhy = true, "request names another server"
					m.Options = append(m.Options, ref.DHCPOpt{Code: 54, Data: n.router.AsSlice()})
					if reqIP.IsValid() {
						m.CIAddr = reqIP.As4()
						src = reqIP.As4()
					}
				case "renew", "rebind":
					if reqIP.IsValid() {
						m.CIAddr = reqIP.As4()
						src = reqIP.As4()
					}
					if op.Kind == "renew" {
						dst, dstMAC = ourID.As4(), hMACs[mOwn]
					}
				case "reboot":
					if reqIP.IsValid() {
						m.Options = append(m.Options, ref.DHCPOpt{Code: 50, Data: reqIP.AsSlice()})
					}
				}
				if op.Kind != "sel-other" && op.Kind != "renew-other" {
					hold, holds := led.may[ident], led.may[ident].IsValid()
					off := led.offered[ident]
					offeredNow := (off.ok || off.expired) && off.ip == reqIP && off.xid == xid
					switch {
					case !reqIP.IsValid() || reqIP.IsUnspecified():
						mustNotAck, mustNotAckWhy = true, "no address requested"
					case !lan.Contains(reqIP):
						mustNotAck, mustNotAckWhy = true, "address outside the client's present subnet"
					case !(holds && hold == reqIP) && !offeredNow:
						mustNotAck, mustNotAckWhy = true, "address neither held by nor offered to this client in this transaction"
					}
				}
				if off := led.offered[ident]; off.ok && offerPendingCapture[ident] != captured {
					res.ToggleBetween = true
				}
			case "decline":
				xid = led.lastXID[ident]
				srv := ourID
				if op.Srv == "other" {
					srv = n.router
				}
				m.Options = append(m.Options, ref.DHCPOpt{Code: 53, Data: []byte{4}}, ref.DHCPOpt{Code: 54, Data: srv.AsSlice()})
				if reqIP.IsValid() {
					m.Options = append(m.Options, ref.DHCPOpt{Code: 50, Data: reqIP.AsSlice()})
				}
			case "release":
				xid = led.lastXID[ident]
				srv := ourID
				if op.Srv == "other" {
					srv = n.router
				}
				m.Options = append(m.Options, ref.DHCPOpt{Code: 53, Data: []byte{7}}, ref.DHCPOpt{Code: 54, Data: srv.AsSlice()})
				if reqIP.IsValid() {
					m.CIAddr = reqIP.As4()
					src = reqIP.As4()
				}
				dst, dstMAC = ourID.As4(), hMACs[mOwn]
			}
			m.XID = xid
			if cid != nil {
				m.Options = append(m.Options, ref.DHCPOpt{Code: 61, Data: cid})
			}
			if nm := dNames[op.Name%len(dNames)]; nm != "" {
				m.Options = append(m.Options, ref.DHCPOpt{Code: 12, Data: []byte(nm)})
			}
			if prl := dPRLs[op.PRL%len(dPRLs)]; prl != nil {
				m.Options = append(m.Options, ref.DHCPOpt{Code: 55, Data: prl})
			}
			if vc := []string{"", "MSFT 5.0", "PXEClient:Arch:00000:UNDI:002001", "android-dhcp-13"}[op.VC%4]; vc != "" {
				m.Options = append(m.Options, ref.DHCPOpt{Code: 60, Data: []byte(vc)})
			}
			if lt := [][]byte{nil, {0, 0, 2, 0x58}, {0xff, 0xff, 0xff, 0xff}}[op.LT%3]; lt != nil {
				m.Options = append(m.Options, ref.DHCPOpt{Code: 51, Data: lt})
			}
			if op.Bcast {
				m.Flags = 0x8000
			}
			frame = ref.Eth(dstMAC, mac, 0x0800, ref.IP4(ref.IP4Hdr{TotalLen: -1, TTL: 64, Proto: 17, Checksum: -1, Src: src, Dst: dst}, ref.UDP(68, 67, -1, 0, m.Encode(true))))
		case "capture":
			env.s.Capture(hwOf(mac))
			// an application that captures a station also tells the handlers (StartHunt): the DHCP handler then forges a
			// RELEASE towards the real server for the lease the station holds in the home LAN
			if ip, ok := led.holding(ident); ok {
				if p, sig, st := drv.Catch(func() { env.h.StartHunt(packet.Addr{MAC: hwOf(mac), IP: ip}) }); p != nil {
					violate(step, sig, "StartHunt panicked: %v\n%s", p, st)
					return
				}
			}
		case "uncapture":
			env.s.Release(hwOf(mac))
		case "tick":
			d := time.Minute
			if op.D == 1 {
				d = 5 * time.Hour // every lease (4 h) has expired
			}
			if op.D == 2 { // half an hour: a lease acknowledged less than three and a half hours ago still runs
				d = 30 * time.Minute
			}
			led.expire(d)                // the ticker frees what will have run out by then (it looks ahead: no time passes)
			for i := range led.offered { // an offer is only good for seconds
				if led.offered[i].ok {
					led.offered[i].ok, led.offered[i].expired = false, true
				}
			}
			if p, sig, st := drv.Catch(func() { env.h.MinuteTicker(time.Now().Add(d)) }); p != nil {
				violate(step, sig, "MinuteTicker panicked: %v\n%s", p, st)
				return
			}
		case "age": // wall-clock time passes for the lease table (dhcp4_spoofer.VerifAgeLeases); the ticker does not run
			// (the amounts are such that no sum of them and of the ticker's look-ahead comes within a minute of the lease time)
			// (with the fourth, a lease acknowledged just before a 3 h 03 min step is 25 s past its end: "recently expired")
			d := []time.Duration{6 * time.Second, time.Hour + 7*time.Minute, 3*time.Hour + 3*time.Minute, 57*time.Minute + 25*time.Second}[op.D%4]
			led.elapsed += d
			led.expire(0)                // a lease that has run out is over, whether or not the server has noticed yet
			for i := range led.offered { // an offer is only good for seconds
				if led.offered[i].ok {
					led.offered[i].ok, led.offered[i].expired = false, true
				}
			}
			env.h.VerifAgeLeases(d)
		case "purge": // the session forgets silent stations (offline after 6 min, removed after 70 min) while their leases (4 h) go on
			for _, d := range []time.Duration{6 * time.Minute, 70 * time.Minute} {
				if p, sig, st := drv.Catch(func() { env.s.VerifPurge(time.Now().Add(d)) }); p != nil {
					violate(step, sig, "purge panicked: %v\n%s", p, st)
					return
				}
			}
			waitNoGoroutine(2*time.Second, "packet.(*Session).purge.func")
			for len(env.s.C) > 0 {
				<-env.s.C
			}
		case "foreign":
			ip := resolve(op.Req)
			if ip.IsValid() {
				f := ref.Eth(hMACs[mRouter], hMACs[op.FMAC], 0x0800, ref.IP4(ref.IP4Hdr{TotalLen: -1, TTL: 64, Proto: 17, Checksum: -1, Src: ip.As4(), Dst: n.router.As4()}, ref.UDP(9999, 9999, -1, 0, []byte("x"))))
				env.deliver(f)
			}
		}
		if !isDHCP {
			env.conn.Take()
			continue
		}
		// what the session tracked before the step (reserved-address rule)
		trackedBefore := func(ip netip.Addr) net.HardwareAddr {
			if hh := env.s.FindIP(ip); hh != nil {
				return hh.MACEntry.MAC
			}
			return nil
		}
		type tracked struct {
			ip  netip.Addr
			mac net.HardwareAddr
		}
		// what the session tracks when the handler takes its decision: after Parse has seen the client's own frame
		var snap []tracked
		_ = trackedBefore
		env.conn.Take()
		perr, _, p, sig, st := env.deliver(frame, func() {
			for _, hh := range env.s.GetHosts() {
				snap = append(snap, tracked{hh.Addr.IP, append(net.HardwareAddr(nil), hh.MACEntry.MAC...)})
			}
		})
		if p != nil {
			violate(step, sig, "DHCP processing panicked: %v\n%s", p, st)
			return
		}
		if perr != nil {
			violate(step, "dhcp-parse-error", "Parse rejected a well-formed DHCP frame: %v", perr)
			return
		}
		frames := env.conn.Take()
		if or.Frames != nil {
			if sig, msg := or.Frames(step, op, frames); sig != "" {
				violate(step, sig, "%s", msg)
				return
			}
		}
		// ledger effects of the client's own message
		switch op.K {
		case "decline":
			if op.Srv != "other" {
				if hold, ok := led.holding(ident); ok && hold == reqIP {
					led.drop(ident)
				}
				if led.may[ident] == reqIP {
					led.may[ident] = netip.Addr{}
				}
			}
			if led.offered[ident].ok { // the server may or may not still honour the offer
				led.offered[ident].ok, led.offered[ident].expired = false, true
			}
		case "release":
			led.drop(ident) // the server may keep the binding; dropping it here only makes the oracle more permissive
		case "request":
			if op.Kind == "sel-other" || op.Kind == "renew-other" {
				led.drop(ident)
				if led.offered[ident].ok {
					led.offered[ident].ok, led.offered[ident].expired = false, true
				}
			}
		}
		replies := serverReplies(frames)
		if os.Getenv("VERIF_TRACE") != "" {
			fmt.Fprintf(os.Stderr, "step %d %v captured=%v reqIP=%v\n", step, op, captured, reqIP)
			for _, r := range replies {
				fmt.Fprintf(os.Stderr, "   reply type=%d yiaddr=%v\n", r.msg.MsgType(), netip.AddrFrom4(r.msg.YIAddr))
			}
			for _, l := range env.h.VerifLeases() {
				fmt.Fprintf(os.Stderr, "   lease id=%x mac=%x ip=%v offer=%v state=%d subnet=%s\n", l.ClientID, l.MAC, l.IP, l.Offer, l.State, l.Subnet)
			}
		}
		if len(replies) > 1 {
			violate(step, "dhcp-multiple-replies", "%d server replies to one message", len(replies))
			return
		}
		if mustNotAck {
			res.MustNotAck++
		}
		for _, r := range replies {
			if r.parse != nil {
				violate(step, "dhcp-reply-malformed", "server reply does not decode: %v", r.parse)
				return
			}
			mt := r.msg.MsgType()
			yi := netip.AddrFrom4(r.msg.YIAddr)
			kind := map[byte]string{2: "OFFER", 5: "ACK", 6: "NAK"}[mt]
			if kind == "" {
				violate(step, "dhcp-reply-type", "server sent message type %d", mt)
				return
			}
			rec.Class(fmt.Sprintf("reply %s to %s/%s captured=%v", kind, op.K, op.Kind, captured))
			if mt == 6 {
				res.Naks++
				if led.offered[ident].ok { // the offer of this transaction was still made: a later ACK of it is accepted, not required
					led.offered[ident].ok, led.offered[ident].expired = false, true
				}
				led.drop(ident)
				if or.C12 {
					if _, ok := r.msg.Opt(54); !ok {
						violate(step, "c12-nak-without-server-id", "NAK carries no server identifier option")
						return
					}
				}
				continue
			}
			res.Served[ident] = true
			// ---------------- C11
			if or.C11 {
				bad := ""
				switch {
				case yi == n.host:
					bad = "the host's own address"
				case yi == n.router:
					bad = "the router's address"
				case !lan.Contains(yi):
					bad = fmt.Sprintf("an address outside the client's subnet %v", lan)
				case yi == lan.Masked().Addr():
					bad = "the network address"
				case yi == bcastOf(lan):
					bad = "the broadcast address"
				}
				if bad == "" {
					if k, held := led.holder[yi]; held && k != ident {
						bad = fmt.Sprintf("an address currently acknowledged to client k%d", k)
					}
				}
				if bad == "" {
					for _, tr := range snap {
						if tr.ip == yi && !bytes.Equal(tr.mac, mac[:]) {
							bad = fmt.Sprintf("an address the session tracks for %v", tr.mac)
						}
					}
				}
				if bad != "" {
					sigs := strings.Fields(bad)
					violate(step, "c11-"+strings.ToLower(kind)+"-"+strings.Join(sigs[:min(len(sigs), 4)], "-"), "%s of %v to k%d: %s", kind, yi, ident, bad)
					return
				}
			}
			// ---------------- C12
			if or.C12 {
				fail := func(what string, got, want interface{}) bool {
					violate(step, "c12-"+strings.ToLower(kind)+"-"+what, "%s %s: got %v, want %v", kind, what, got, want)
					return true
				}
				if r.msg.Op != 2 {
					fail("op", r.msg.Op, 2)
					return
				}
				if r.msg.XID != xid {
					fail("xid", r.msg.XID, xid)
					return
				}
				if r.msg.CHAddr != mac {
					fail("chaddr", r.msg.CHAddr, mac)
					return
				}
				if !lan.Contains(yi) {
					fail("subnet", yi, lan)
					return
				}
				mask := net.CIDRMask(lan.Bits(), 32)
				if v, _ := r.msg.Opt(1); !bytes.Equal(v, mask) {
					fail("mask", v, []byte(mask))
					return
				}
				if i1, i3 := r.msg.OptIndex(1), r.msg.OptIndex(3); i3 < 0 || i1 > i3 {
					fail("mask-before-router", optCodes(r.msg.Options), "option 1 before option 3")
					return
				}
				if v, _ := r.msg.Opt(3); !bytes.Equal(v, gw.AsSlice()) {
					fail("router", v, gw)
					return
				}
				if v, _ := r.msg.Opt(6); !bytes.Equal(v, dns.AsSlice()) {
					fail("dns", v, dns)
					return
				}
				if v, _ := r.msg.Opt(54); !bytes.Equal(v, ourID.AsSlice()) {
					fail("server-id", v, ourID)
					return
				}
				if v, _ := r.msg.Opt(51); len(v) != 4 || binary.BigEndian.Uint32(v) != 4*3600 {
					fail("lease-time", v, "14400 s")
					return
				}
				if mt == 5 {
					if mustNotAck {
						violate(step, "c12-ack-must-not: "+mustNotAckWhy, "request acknowledged (yiaddr %v) although %s", yi, mustNotAckWhy)
						return
					}
					hold, holds := led.may[ident], led.may[ident].IsValid()
					off := led.offered[ident]
					if off.expired && off.ip == yi && off.xid == xid {
						rec.Class("lenient: ACK of an offer that a tick had expired")
					}
					if !(holds && hold == yi) && !((off.ok || off.expired) && off.ip == yi && off.xid == xid) {
						violate(step, "c12-ack-address", "ACK confirms %v which is neither the offer of this transaction (%v) nor the client's lease (%v)", yi, off.ip, hold)
						return
					}
				}
			}
			if mt == 2 {
				res.Offers++
				led.offered[ident] = dOffer{ip: yi, xid: xid, ok: true}
				offerPendingCapture[ident] = captured
			} else {
				res.Acks++
				led.drop(ident)
				led.holder[yi] = ident
				led.may[ident] = yi
				led.ackAt[ident] = led.elapsed
				led.offered[ident] = dOffer{}
				if or.AfterAck != nil {
					or.AfterAck(step, led)
				}
			}
		}
		if op.K == "discover" && len(replies) == 0 {
			led.offered[ident] = dOffer{}
		}
	}
}
