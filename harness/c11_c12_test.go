//go:build verif

package harness

import (
	"fmt"
	"net/netip"
	"os"
	"path/filepath"
	"testing"
	"time"

	"pgregory.net/rapid"
	"verifharness/drv"
)

// C11 — DHCP never leases one address to two clients or hands out a reserved address
// C12 — DHCP replies segregate captured clients and conform to the transaction

const c11Rule = "DHCP message histories (DISCOVER/REQUEST in all five request kinds/DECLINE/RELEASE from 4 client identities - two sharing a chaddr - with requested-address classes offered|current|other client's|free|off-subnet|network|broadcast|router|host|other-subnet|none, same or fresh xid, capture toggles, +1min/+5h ticks, foreign traffic that makes the session track an address), delivered through Parse->ProcessPacket->Notify in an EthMaxSize buffer: every sequence up to a bounded depth over a 12-symbol alphabet on a 14-address pool (exhaustive) plus rapid sequences of 5..80 ops on three prefix configurations and three modes; session purges (silent stations forgotten while their leases go on), a /23 home LAN with the request class twin (same last octet in the other half), and the sub-check recycling (acquire / expire / purge rounds in drawn order); oracle = wire-level ledger of acknowledged addresses. non-trivial = at least two clients received an OFFER or ACK, or a reserved/foreign address was requested; distinct by hash of the op list"

var c11Alphabet = []dOp{
	{K: "discover", C: 0},
	{K: "discover", C: 1, XID: 1},
	{K: "discover", C: 0, Req: "other", XID: 2},
	{K: "request", C: 0, Kind: "sel-ours", Req: "offered"},
	{K: "request", C: 1, Kind: "sel-ours", Req: "offered"},
	{K: "request", C: 1, Kind: "sel-ours", Req: "other"},
	{K: "request", C: 0, Kind: "renew", Req: "current"},
	{K: "request", C: 0, Kind: "reboot", Req: "other"},
	{K: "decline", C: 0, Req: "current", Srv: "ours"},
	{K: "capture", C: 0},
	{K: "tick", D: 1},
	{K: "discover", C: 1, Req: "broadcast", XID: 3},
}

func enumDHCP(alpha []dOp, depth, i int, cfg dhcpCfg) dhcpHistory {
	h := dhcpHistory{Cfg: cfg}
	for d := 0; d < depth; d++ {
		h.Ops = append(h.Ops, alpha[i%len(alpha)])
		i /= len(alpha)
	}
	return h
}

var dReqClasses = []string{"", "offered", "offered", "current", "current", "other", "other", "free", "offsubnet", "network", "broadcast", "router", "host", "othersubnet", "twin"}

func genDHCPHistory(t *rapid.T) dhcpHistory {
	h := dhcpHistory{Cfg: dhcpCfg{Net: rapid.IntRange(0, 4).Draw(t, "net"), Mode: rapid.IntRange(1, 3).Draw(t, "mode"), Quiet: rapid.IntRange(0, 3).Draw(t, "quiet") == 0, Debug: rapid.IntRange(0, 5).Draw(t, "debug") == 0}}
	n := rapid.IntRange(5, 80).Draw(t, "nops")
	for i := 0; i < n; i++ {
		op := dOp{K: rapid.SampledFrom([]string{"discover", "discover", "discover", "request", "request", "request", "request", "decline", "release", "capture", "uncapture", "tick", "foreign", "purge", "age"}).Draw(t, "k")}
		op.C = rapid.SampledFrom([]int{0, 1, 2, 3, 0, 1, 2, 3, 6}).Draw(t, "c")
		switch op.K {
		case "discover":
			op.Req = rapid.SampledFrom(dReqClasses).Draw(t, "req")
			op.XID = rapid.IntRange(0, 3).Draw(t, "xid")
			op.Name, op.PRL, op.Bcast = rapid.IntRange(0, 2).Draw(t, "name"), rapid.IntRange(0, 4).Draw(t, "prl"), rapid.Bool().Draw(t, "bcast")
			op.Spoof = rapid.IntRange(0, 19).Draw(t, "spoof") == 0
			op.VC, op.LT = rapid.SampledFrom([]int{0, 0, 0, 1, 2, 3}).Draw(t, "vc"), rapid.SampledFrom([]int{0, 0, 0, 1, 2}).Draw(t, "lt")
		case "request":
			op.Kind = rapid.SampledFrom([]string{"sel-ours", "sel-ours", "sel-ours", "sel-other", "renew", "renew", "rebind", "reboot", "renew-other"}).Draw(t, "kind")
			op.Req = rapid.SampledFrom(dReqClasses).Draw(t, "req")
			if op.Kind != "sel-ours" && op.Kind != "sel-other" && rapid.IntRange(0, 2).Draw(t, "ownLease") != 0 {
				op.Req = "current" // renew / rebind / reboot of the client's own lease: the common case
			}
			op.XID = rapid.SampledFrom([]int{0, 0, 0, 1, 2}).Draw(t, "xid")
			op.Name, op.PRL, op.Bcast = rapid.IntRange(0, 2).Draw(t, "name"), rapid.IntRange(0, 4).Draw(t, "prl"), rapid.Bool().Draw(t, "bcast")
			op.Spoof = rapid.IntRange(0, 19).Draw(t, "spoof") == 0
			op.VC, op.LT = rapid.SampledFrom([]int{0, 0, 0, 1, 2, 2, 3}).Draw(t, "vc"), rapid.SampledFrom([]int{0, 0, 0, 1, 1, 2}).Draw(t, "lt")
		case "decline", "release":
			op.Req = rapid.SampledFrom([]string{"current", "current", "offered", "other", "free", ""}).Draw(t, "req")
			op.Srv = rapid.SampledFrom([]string{"ours", "ours", "other"}).Draw(t, "srv")
		case "tick":
			op.D = rapid.SampledFrom([]int{0, 0, 1, 2, 2}).Draw(t, "d")
		case "age":
			op.D = rapid.IntRange(0, 3).Draw(t, "ageD")
		case "foreign":
			op.FMAC = rapid.SampledFrom([]int{mC1, mC2, mC3, mRouter}).Draw(t, "fmac")
			op.Req = rapid.SampledFrom([]string{"free", "free", "other", "current"}).Draw(t, "req")
		}
		h.Ops = append(h.Ops, op)
		// a complete handshake is the common continuation of a DISCOVER
		if op.K == "discover" && !op.Spoof && rapid.IntRange(0, 2).Draw(t, "handshake") == 0 {
			h.Ops = append(h.Ops, dOp{K: "request", C: op.C, Kind: "sel-ours", Req: "offered", PRL: op.PRL, Name: op.Name})
			i++
		}
	}
	return h
}

func runDHCPCase(tb drv.TB, rec *drv.Rec, prop, sub string, h dhcpHistory, or dhcpOracles, nt func(dhcpResult) bool) {
	rec.Eval()
	drv.Begin(prop, sub, 'J', mustJSON(h), 30*time.Second)
	defer drv.End()
	res := runDHCP(tb, rec, sub, h, or)
	if len(res.Served) >= 2 {
		rec.Class("history: >=2 clients served")
	}
	if res.ToggleBetween {
		rec.Class("history: capture toggled between OFFER and REQUEST")
	}
	if res.MustNotAck > 0 {
		rec.Class("history: contains must-not-ACK requests")
	}
	rec.Add("acks", int64(res.Acks))
	rec.Add("offers", int64(res.Offers))
	rec.Add("naks", int64(res.Naks))
	if nt(res) {
		rec.NonTrivial(drv.HashJSON(h), func() interface{} { return map[string]interface{}{"cfg": h.Cfg, "ops": dhcpHistString(h)} })
	}
}

func TestC11(t *testing.T) {
	rec := drv.For("C11", c11Rule)
	or := dhcpOracles{C11: true}
	nt := func(r dhcpResult) bool { return len(r.Served) >= 2 || r.ReservedReq }
	depth := drv.N(4, 5)
	for _, mode := range []int{2, 1} {
		mode := mode
		sub := "exhaustive-mode" + string(rune('0'+mode))
		d := depth
		if mode == 1 {
			d = depth - 1
		}
		drv.Enum(t, rec, sub, pow(len(c11Alphabet), d), func(i int) dhcpHistory { return enumDHCP(c11Alphabet, d, i, dhcpCfg{Net: 0, Mode: mode}) },
			func(tb drv.TB, h dhcpHistory) { runDHCPCase(tb, rec, "C11", sub, h, or, nt) })
	}
	drv.Prop(t, rec, "random", 3000, 80000, genDHCPHistory,
		func(tb drv.TB, h dhcpHistory) { runDHCPCase(tb, rec, "C11", "random", h, or, nt) })
	// lease recycling: rounds in which some clients acquire an address (the first free one, which is the one an expired
	// lease of somebody else still remembers), then the leases expire (ticker, 5 h) and the session forgets the silent
	// stations (purge) - in drawn order, so that freed, remembered and re-assigned addresses meet
	drv.Prop(t, rec, "recycling", 1500, 40000, func(t *rapid.T) dhcpHistory {
		h := dhcpHistory{Cfg: dhcpCfg{Net: rapid.SampledFrom([]int{0, 1, 3, 4}).Draw(t, "net"), Mode: rapid.SampledFrom([]int{1, 1, 2}).Draw(t, "mode")}}
		for r := rapid.IntRange(2, 4).Draw(t, "rounds"); r > 0; r-- {
			for _, c := range rapid.Permutation([]int{0, 1, 2, 4, 6}).Draw(t, "order")[:rapid.IntRange(1, 3).Draw(t, "n")] {
				h.Ops = append(h.Ops, dOp{K: "discover", C: c, XID: r, Req: rapid.SampledFrom([]string{"", "free", "free", "other"}).Draw(t, "req")})
				if rapid.IntRange(0, 3).Draw(t, "select") != 0 {
					h.Ops = append(h.Ops, dOp{K: "request", C: c, Kind: "sel-ours", Req: "offered"})
				}
			}
			for _, k := range rapid.Permutation([]string{"tick", "purge", "discover"}).Draw(t, "between")[:rapid.IntRange(1, 3).Draw(t, "nb")] {
				switch k {
				case "tick":
					h.Ops = append(h.Ops, dOp{K: "tick", D: 1})
				case "purge":
					h.Ops = append(h.Ops, dOp{K: "purge"})
				case "discover":
					h.Ops = append(h.Ops, dOp{K: "discover", C: rapid.SampledFrom([]int{0, 1, 2, 4, 6}).Draw(t, "c"), XID: 3, Req: rapid.SampledFrom([]string{"", "other", "free"}).Draw(t, "req")})
				}
			}
		}
		return h
	}, func(tb drv.TB, h dhcpHistory) { runDHCPCase(tb, rec, "C11", "recycling", h, or, nt) })
	// pool exhaustion and cursor wrap-around on the 14-address pool
	drv.Prop(t, rec, "exhaustion", 300, 6000, func(t *rapid.T) dhcpHistory {
		h := dhcpHistory{Cfg: dhcpCfg{Net: 0, Mode: rapid.IntRange(1, 3).Draw(t, "mode")}}
		for i := rapid.IntRange(10, 40).Draw(t, "n"); i > 0; i-- {
			c := rapid.IntRange(0, 3).Draw(t, "c")
			h.Ops = append(h.Ops, dOp{K: "discover", C: c, XID: i % 4})
			switch rapid.IntRange(0, 5).Draw(t, "then") {
			case 0, 1, 2:
				h.Ops = append(h.Ops, dOp{K: "request", C: c, Kind: "sel-ours", Req: "offered"})
			case 3:
				h.Ops = append(h.Ops, dOp{K: "foreign", FMAC: mRouter, Req: "free"})
			case 4:
				h.Ops = append(h.Ops, dOp{K: "decline", C: c, Req: "current", Srv: "ours"})
			}
		}
		return h
	}, func(tb drv.TB, h dhcpHistory) { runDHCPCase(tb, rec, "C11", "exhaustion", h, or, nt) })
}

const c12Rule = "the C11 histories for every operating mode (primary, secondary, secondary-nice) and three home/netfilter prefix configurations; every OFFER/ACK/NAK is decoded by ref and checked against the transaction: op, xid, chaddr, yiaddr inside the subnet selected by the client's capture state at that moment, mask (before router), router, DNS, server id, lease time, and ACK only for the address offered in this transaction or the client's current lease; non-trivial = capture toggled between an OFFER and the next REQUEST of that client, or at least one must-not-ACK request; distinct by hash of the op list"

var c12Alphabet = []dOp{
	{K: "discover", C: 0, PRL: 1},
	{K: "discover", C: 1, XID: 1, PRL: 3},
	{K: "request", C: 0, Kind: "sel-ours", Req: "offered", PRL: 1},
	{K: "request", C: 1, Kind: "sel-ours", Req: "offered", PRL: 3},
	{K: "request", C: 0, Kind: "sel-ours", Req: "free", XID: 1},
	{K: "request", C: 0, Kind: "sel-other", Req: "offered"},
	{K: "request", C: 0, Kind: "renew", Req: "current"},
	{K: "request", C: 0, Kind: "reboot", Req: "current"},
	{K: "capture", C: 0},
	{K: "uncapture", C: 0},
	{K: "tick", D: 1},
	{K: "tick", D: 0},
}

func TestC12(t *testing.T) {
	rec := drv.For("C12", c12Rule)
	or := dhcpOracles{C12: true}
	nt := func(r dhcpResult) bool { return r.ToggleBetween || r.MustNotAck > 0 }
	depth := drv.N(4, 5)
	for _, cfg := range []dhcpCfg{{Net: 0, Mode: 2}, {Net: 1, Mode: 3}, {Net: 2, Mode: 1}} {
		cfg := cfg
		sub := "exhaustive-net" + string(rune('0'+cfg.Net))
		d := depth
		if cfg.Net != 0 {
			d = depth - 1
		}
		drv.Enum(t, rec, sub, pow(len(c12Alphabet), d), func(i int) dhcpHistory { return enumDHCP(c12Alphabet, d, i, cfg) },
			func(tb drv.TB, h dhcpHistory) { runDHCPCase(tb, rec, "C12", sub, h, or, nt) })
	}
	drv.Prop(t, rec, "random", 3000, 80000, genDHCPHistory,
		func(tb drv.TB, h dhcpHistory) { runDHCPCase(tb, rec, "C12", "random", h, or, nt) })

	// a handler restarted on the lease file of an earlier run with another configuration (DNS server, netfilter
	// prefix length) must answer with the configuration it was given now
	drv.Prop(t, rec, "reconfigured", 60, 2500, func(t *rapid.T) c12Reconf {
		c := c12Reconf{First: genAckOnly(t), DNS: rapid.IntRange(0, 1).Draw(t, "dns"), NF: rapid.IntRange(0, 1).Draw(t, "nf")}
		c.Second = genAckOnly(t).Ops
		return c
	}, func(tb drv.TB, c c12Reconf) { c12RunReconf(tb, rec, "reconfigured", c) })
}

type c12Reconf struct {
	First  dhcpHistory `json:"first"` // run with the net's default configuration and a lease file
	DNS    int         `json:"dns"`   // configuration of the second handler on the same file
	NF     int         `json:"nf"`
	Second []dOp       `json:"second"` // handshakes played against the second handler
}

func c12RunReconf(tb drv.TB, rec *drv.Rec, sub string, c c12Reconf) {
	rec.Eval()
	drv.Begin("C12", sub, 'J', mustJSON(c), 60*time.Second)
	defer drv.End()
	dir, _ := os.MkdirTemp("", "c12-")
	defer os.RemoveAll(dir)
	c.First.Cfg.DNS, c.First.Cfg.NF = 0, 0
	if snaps, _, ok := c18Produce(tb, rec, sub, c.First, dir); !ok || len(snaps) == 0 {
		return // no lease was acknowledged: there is no file to restart on
	}
	cfg2 := c.First.Cfg
	cfg2.File, cfg2.DNS, cfg2.NF = filepath.Join(dir, "leases.yaml"), c.DNS, c.NF
	var env *dhcpEnv
	var err error
	if p, sig, st := drv.Catch(func() { env, err = newDHCPEnv(cfg2) }); p != nil {
		rec.Violation(tb, sub, "c12-reconf-"+sig, c, "New panicked on the lease file of the earlier configuration: %v\n%s", p, st)
		return
	}
	if err != nil {
		rec.Violation(tb, sub, "c12-reconf-new-failed", c, "New failed on the lease file of the earlier configuration: %v", err)
		return
	}
	defer env.close()
	// only self-contained handshakes: the wire-level ledger of the second run starts empty
	var ops []dOp
	for _, op := range c.Second {
		if op.K == "request" && (op.Kind == "renew" || op.Kind == "reboot") {
			continue
		}
		ops = append(ops, op)
	}
	var res dhcpResult
	res.Served = map[int]bool{}
	h2 := dhcpHistory{Cfg: cfg2, Ops: ops}
	runDHCPOn(tb, rec, sub, h2, dhcpOracles{C12: true}, env, &res, &dLedger{holder: map[netip.Addr]int{}})
	rec.Class(fmt.Sprintf("reconfigured dns=%d nf=%d acks=%d", c.DNS, c.NF, res.Acks))
	if res.Acks > 0 && (c.DNS != 0 || c.NF != 0) {
		rec.NonTrivial(drv.HashJSON(c), func() interface{} { return c })
	}
}
