//go:build verif

package harness

import (
	"errors"
	"net"
	"net/netip"
	"sync"
	"time"

	"github.com/irai/packet"
	"verifharness/gen"
	"verifharness/ref"
)

// recConn is the net.PacketConn handed to packet.Config: it records every
// frame the library writes (with a timestamp) and feeds ReadFrom from a channel.
type recConn struct {
	mu     sync.Mutex
	frames []sentFrame
	rd     chan []byte
	closed chan struct{}
	once   sync.Once
	fail   bool           // WriteTo returns an error (fault injection)
	stall  chan struct{}  // when set, WriteTo blocks until it is closed (a slow or stalled transmit path)
	hook   func(b []byte) // when set, called inside WriteTo after the frame was recorded (a station that answers before the write returns)
}

// setStall makes every following WriteTo block; the returned function releases them.
func (c *recConn) setStall() func() {
	ch := make(chan struct{})
	c.mu.Lock()
	c.stall = ch
	c.mu.Unlock()
	var once sync.Once
	return func() {
		once.Do(func() {
			c.mu.Lock()
			c.stall = nil
			c.mu.Unlock()
			close(ch)
		})
	}
}

type sentFrame struct {
	B  []byte
	At time.Time
}

func newRecConn() *recConn {
	return &recConn{rd: make(chan []byte, 1024), closed: make(chan struct{})}
}

func (c *recConn) WriteTo(b []byte, _ net.Addr) (int, error) {
	if c.fail {
		return 0, errors.New("injected write failure")
	}
	c.mu.Lock()
	st := c.stall
	c.mu.Unlock()
	if st != nil {
		<-st
	}
	cp := append([]byte(nil), b...)
	c.mu.Lock()
	c.frames = append(c.frames, sentFrame{cp, time.Now()})
	hook := c.hook
	c.mu.Unlock()
	if hook != nil {
		hook(cp)
	}
	return len(b), nil
}

func (c *recConn) ReadFrom(b []byte) (int, net.Addr, error) {
	select {
	case p := <-c.rd:
		return copy(b, p), nil, nil
	case <-c.closed:
		return 0, nil, net.ErrClosed
	}
}

func (c *recConn) Close() error                       { c.once.Do(func() { close(c.closed) }); return nil }
func (c *recConn) LocalAddr() net.Addr                { return nil }
func (c *recConn) SetDeadline(t time.Time) error      { return nil }
func (c *recConn) SetReadDeadline(t time.Time) error  { return nil }
func (c *recConn) SetWriteDeadline(t time.Time) error { return nil }

// Take returns and clears the recorded frames.
func (c *recConn) Take() []sentFrame {
	c.mu.Lock()
	f := c.frames
	c.frames = nil
	c.mu.Unlock()
	return f
}

// Len is the number of recorded frames.
func (c *recConn) Len() int {
	c.mu.Lock()
	defer c.mu.Unlock()
	return len(c.frames)
}

// nicCfg describes the fake interface a session is built on.
type nicCfg struct {
	W        gen.World
	HostGUA  netip.Prefix
	NoLLA    bool
	Probe    time.Duration
	Offline  time.Duration
	Purge    time.Duration
	MTU      int
	FailConn bool
}

func hw(m ref.MAC) net.HardwareAddr { return net.HardwareAddr(append([]byte(nil), m[:]...)) }

func (n nicCfg) info() *packet.NICInfo {
	mtu := n.MTU
	if mtu == 0 {
		mtu = 1500
	}
	ni := &packet.NICInfo{
		IFI:         &net.Interface{Index: 2, MTU: mtu, Name: "eth0", HardwareAddr: hw(n.W.HostMAC)},
		HomeLAN4:    n.W.LAN,
		HostAddr4:   packet.Addr{MAC: hw(n.W.HostMAC), IP: n.W.HostIP},
		RouterAddr4: packet.Addr{MAC: hw(n.W.RouterMAC), IP: n.W.RouterIP},
		HostGUA:     n.HostGUA,
	}
	if !n.NoLLA {
		ni.HostLLA = netip.PrefixFrom(n.W.HostLLA, 64)
		ni.RouterLLA = netip.PrefixFrom(n.W.RouterLLA, 64)
	}
	return ni
}

// newSession builds a session on a recording connection.
func newSession(n nicCfg) (*packet.Session, *recConn) {
	conn := newRecConn()
	conn.fail = n.FailConn
	s, err := packet.Config{Conn: conn, NICInfo: n.info(), ProbeDeadline: n.Probe, OfflineDeadline: n.Offline, PurgeDeadline: n.Purge}.NewSession("")
	if err != nil {
		panic("harness: NewSession: " + err.Error())
	}
	return s, conn
}

// closeSession stops the session's background goroutines without waiting for
// the one-second sleep inside Close.
func closeSession(s *packet.Session) { go s.Close() }

func defaultNIC() nicCfg { return nicCfg{W: gen.DefaultWorld()} }
