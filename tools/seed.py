#!/usr/bin/env python3
"""Vet a seeded change produced by a sub-agent and run checks against it.

  seed.py vet <agent_out_dir> <seed_id>          verify + copy to /verif/seeded/<seed_id>/
  seed.py run <seed_id> <PROP> [<PROP>...]       run quick (or VERIF_TIER) checks against the seeded change

vet: in a fresh scratch worktree of /repo HEAD (under /tmp, removed afterwards):
  1. the demonstration passes on the unchanged tree,
  2. the patch applies, the library builds, the existing tests of the root package and of every touched
     handler package pass (dns_naming: only build, its suite takes 7 minutes and is covered by the final baseline run),
  3. the demonstration fails with the patch.
run: applies the patch in a scratch worktree and points the checks at it with VERIF_REPO (equivalent to
  `git -C /repo apply` + undo, without ever touching /repo); records the verdict in seeded/<id>/meta.json.
"""
import json
import re
import os
import shutil
import subprocess
import sys
import tempfile

ENV = dict(os.environ, GOFLAGS="-mod=mod", GOPROXY="off", GOSUMDB="off", GOTOOLCHAIN="local")
SEEDED = "/verif/seeded"


def sh(cmd, cwd, timeout=1500):
    p = subprocess.run(cmd, cwd=cwd, env=ENV, stdout=subprocess.PIPE, stderr=subprocess.STDOUT, text=True, shell=isinstance(cmd, str), timeout=timeout)
    return p.returncode, p.stdout


def worktree():
    wt = tempfile.mkdtemp(prefix="seedwt-", dir="/tmp")
    os.rmdir(wt)
    subprocess.check_call(["git", "-C", "/repo", "worktree", "add", "-q", "--detach", wt, "HEAD"])
    return wt


def drop(wt):
    subprocess.call(["git", "-C", "/repo", "worktree", "remove", "--force", wt])
    shutil.rmtree(wt, ignore_errors=True)


def demo_pkg(meta, demo_src):
    loc = (meta.get("demo_location") or "").strip()
    for cand in ("handlers/arp_spoofer", "handlers/dhcp4_spoofer", "handlers/dns_naming", "handlers/icmp_spoofer", "fastlog"):
        if cand in loc:
            return cand
    first = demo_src.split("package", 1)[1].split()[0] if "package" in demo_src else "packet"
    return {"arp_spoofer": "handlers/arp_spoofer", "dhcp4_spoofer": "handlers/dhcp4_spoofer", "dns_naming": "handlers/dns_naming",
            "icmp_spoofer": "handlers/icmp_spoofer", "fastlog": "fastlog"}.get(first, ".")


def vet(src, sid):
    meta = json.load(open(os.path.join(src, "meta.json")))
    patch = os.path.join(src, "patch.diff")
    demos = [f for f in os.listdir(src) if f.endswith("_test.go") or f.endswith(".go")]
    demo = os.path.join(src, demos[0])
    demo_src = open(demo).read()
    pkg = demo_pkg(meta, demo_src)
    wt = worktree()
    log = []
    ok = True
    try:
        dst = os.path.join(wt, pkg, "zz_seed_demo_test.go")
        shutil.copy(demo, dst)
        run = "go test -vet=off -count=1 -run 'Demo|Seed|C[0-9]+' ./%s" % pkg
        # find the demo's test names to run exactly them
        names = [l.split("(")[0].replace("func ", "").strip() for l in demo_src.splitlines() if l.startswith("func Test")]
        race = "-race -tags verif " if re.search(r"go test[^\n]*-race", demo_src) else ""  # the demonstration states that it needs the race detector
        run = "go test %s-vet=off -count=1 -run '^(%s)$' ./%s" % (race, "|".join(names), pkg)
        rc, out = sh(run, wt)
        log.append("demo on unchanged tree: rc=%d" % rc)
        if rc != 0:
            ok = False
            log.append(out[-1500:])
        os.remove(dst)
        rc, out = sh(["git", "apply", patch], wt)
        if rc != 0:
            ok = False
            log.append("patch does not apply: " + out)
        else:
            files = subprocess.run(["git", "diff", "--name-only"], cwd=wt, stdout=subprocess.PIPE, text=True).stdout.split()
            rc, out = sh("go build ./... && go vet -tags verif . >/dev/null 2>&1; go build -tags verif ./...", wt)
            log.append("build with patch: rc=%d" % rc)
            if rc != 0:
                ok = False
                log.append(out[-1500:])
            pk = {"."}
            for f in files:
                d = os.path.dirname(f)
                pk.add(d if d else ".")
            test_pkgs = sorted("./" + p if p != "." else "." for p in pk if "dns_naming" not in p)
            rc, out = sh("go test -vet=off -count=1 " + " ".join(test_pkgs), wt)
            log.append("existing tests %s with patch: rc=%d" % (test_pkgs, rc))
            if rc != 0 and "Test_requestExhaust" in out and out.count("--- FAIL") == 1:
                log.append("(only the known-flaky Test_requestExhaust failed; re-running)")
                rc, out = sh("go test -vet=off -count=1 " + " ".join(test_pkgs), wt)
            if rc != 0:
                ok = False
                log.append(out[-2500:])
            shutil.copy(demo, dst)
            rc, out = sh(run, wt)
            log.append("demo with patch: rc=%d (must fail)" % rc)
            if rc == 0:
                ok = False
            os.remove(dst)
            meta["files_touched"] = files
    finally:
        drop(wt)
    print("\n".join(log))
    print("VET %s: %s" % (sid, "OK" if ok else "REJECTED"))
    if not ok:
        return 1
    d = os.path.join(SEEDED, sid)
    os.makedirs(d, exist_ok=True)
    shutil.copy(patch, os.path.join(d, "patch.diff"))
    shutil.copy(demo, os.path.join(d, os.path.basename(demo)))
    meta["seed_id"] = sid
    meta["demo_package_dir"] = pkg
    meta["vetted"] = log
    meta.setdefault("checks", {})
    json.dump(meta, open(os.path.join(d, "meta.json"), "w"), indent=1)
    return 0


def run(sid, props):
    d = os.path.join(SEEDED, sid)
    meta = json.load(open(os.path.join(d, "meta.json")))
    wt = worktree()
    try:
        rc, out = sh(["git", "apply", os.path.join(d, "patch.diff")], wt)
        if rc != 0:
            print("patch does not apply any more:", out)
            return 2
        tier = os.environ.get("VERIF_TIER", "quick")
        for pr in props:
            p = subprocess.run(["/verif/check", pr, tier], env=dict(ENV, VERIF_REPO=wt), stdout=subprocess.PIPE, stderr=subprocess.STDOUT, text=True)
            sigs = [l.strip() for l in p.stdout.splitlines() if l.strip().startswith("signature=")]
            verdict = {0: "MISSED", 1: "CAUGHT"}.get(p.returncode, "INCONCLUSIVE")
            first = sigs[0][:260] if sigs else ""
            print("%s vs %s (%s): %s %s" % (sid, pr, tier, verdict, first))
            if verdict == "INCONCLUSIVE":
                print(p.stdout[-1500:])
            meta.setdefault("checks", {})["%s/%s" % (pr, tier)] = {"verdict": verdict, "first_signature": first}
        json.dump(meta, open(os.path.join(d, "meta.json"), "w"), indent=1)
    finally:
        drop(wt)
    return 0


def runall():
    """Re-run every kept change against the check of its own property (detects patches that no longer apply
    after later repairs of /repo, and checks that nothing that was caught is now missed)."""
    bad = 0
    for sid in sorted(os.listdir(SEEDED)):
        if not os.path.exists(os.path.join(SEEDED, sid, "meta.json")):
            continue
        rc = run(sid, [sid.split("-")[0]])
        if rc != 0:
            bad += 1
    return 1 if bad else 0


if __name__ == "__main__":
    if sys.argv[1] == "runall":
        sys.exit(runall())
    if sys.argv[1] == "vet":
        sys.exit(vet(sys.argv[2], sys.argv[3]))
    sys.exit(run(sys.argv[2], sys.argv[3:]))
