#!/bin/bash
# tools/runall.sh quick|thorough [ids...] : run the checks one after the other, one summary line each
tier=${1:-quick}; shift
ids=${@:-C01 C02 C03 C04 C05 C06 C07 C08 C09 C10 C11 C12 C13 C14 C15 C16 C17 C18 C19 C20}
cd "$(dirname "$0")/.."
for id in $ids; do
  t0=$(date +%s)
  out=$(./check $id $tier 2>&1); rc=$?
  echo "$id $tier rc=$rc $(( $(date +%s)-t0 ))s $(echo "$out" | grep -a -c '^KNOWN-FINDING') known; $(echo "$out" | grep -a '^VIOLATION' | head -3 | tr '\n' ' ')"
  [ $rc -ne 0 ] && echo "$out" | grep -a -v '^KNOWN' | tail -15
done
