#!/usr/bin/env python3
"""tools/baseline.py : run irai/packet's own test suite (no build tag) on a scratch worktree of /repo HEAD and compare
with the stable-pass list of /root/.vp/BASELINE.json. Prints the stable tests that do not pass now."""
import json, os, subprocess, sys, tempfile, shutil
base = json.load(open("/root/.vp/BASELINE.json"))
stable = set(base["stable_pass"])
wt = tempfile.mkdtemp(prefix="baseline-", dir="/tmp")
os.rmdir(wt)
subprocess.run(["git", "-C", "/repo", "worktree", "add", "-q", "--detach", wt, "HEAD"], check=True)
env = dict(os.environ, GOFLAGS="-mod=mod", GOPROXY="off", GOSUMDB="off", GOTOOLCHAIN="local")
try:
    p = subprocess.run(["go", "test", "-json", "-vet=off", "-count=1", "-timeout", "25m", "./..."], cwd=wt, env=env, stdout=subprocess.PIPE, stderr=subprocess.STDOUT, text=True)
    passed, failed = set(), set()
    for line in p.stdout.splitlines():
        try:
            ev = json.loads(line)
        except ValueError:
            continue
        if ev.get("Test") and ev.get("Action") in ("pass", "fail"):
            (passed if ev["Action"] == "pass" else failed).add(ev["Package"] + "::" + ev["Test"])
    missing = sorted(stable - passed)
    print("%d stable; not passing now: %s" % (len(stable), missing))
    print("failing tests:", sorted(failed))
    sys.exit(1 if missing else 0)
finally:
    subprocess.run(["git", "-C", "/repo", "worktree", "remove", "--force", wt])
    shutil.rmtree(wt, ignore_errors=True)
