#!/usr/bin/env python3
"""Regenerates the generated tables of DESIGN.md (between <!-- BEGIN x --> / <!-- END x --> markers):
defects repaired / recorded (from known_findings.json + /repo's git log) and seeded changes (from seeded/*/meta.json)."""
import json, glob, os, subprocess, re
ROOT = os.path.dirname(os.path.dirname(os.path.abspath(__file__)))
p = os.path.join(ROOT, 'DESIGN.md')
s = open(p).read()
kf = json.load(open(os.path.join(ROOT, 'known_findings.json')))
subj = {}
for l in subprocess.run(['git', '-C', '/repo', 'log', '--format=%h %s'], capture_output=True, text=True).stdout.splitlines():
    h, m = l.split(' ', 1)
    subj[h] = m
def esc(t):
    return t.replace('|', '\\|').replace('\n', ' ')
rows = ['| # | Prop | fix commit | what failed (found by the property\'s check) |', '|---|---|---|---|']
n = 0
order = {h: i for i, h in enumerate(reversed(list(subj)))}
for e in sorted([e for e in kf if e['status'] == 'fixed'], key=lambda e: order.get(e['commit'], 0)):
    n += 1
    rows.append('| %d | %s | `%s` %s | %s |' % (n, e['property'], e['commit'], esc(subj.get(e['commit'], '')[5:]), esc(e['what'])))
fixed = '\n'.join(rows)
rows = ['| Prop | signature | what fails |', '|---|---|---|']
for e in kf:
    if e['status'] == 'known':
        rows.append('| %s | `%s` | %s |' % (e['property'], e['signature'], esc(e['what'])))
known = '\n'.join(rows)
rows = ['| seeded change | what it breaks / what it needs | caught by (quick tier), first signature |', '|---|---|---|']
cnt = 0
for d in sorted(glob.glob(os.path.join(ROOT, 'seeded', '*'))):
    mp = os.path.join(d, 'meta.json')
    if not os.path.exists(mp):
        continue
    m = json.load(open(mp))
    cnt += 1
    ch = []
    for k, v in sorted((m.get('checks') or {}).items()):
        sig = (v.get('first_signature') or '').replace('signature=', '')
        sig = sig.split(' ')[0][:70]
        ch.append('%s: %s%s' % (k.split('/')[0], v['verdict'], (' `' + sig + '`') if v['verdict'] == 'CAUGHT' and sig else ''))
    need = m.get('needs_to_manifest', '')
    if isinstance(need, list):
        need = '; '.join(need)
    rows.append('| %s | %s — *needs:* %s | %s |' % (os.path.basename(d), esc(m.get('title', '')[:160]), esc(str(need)[:260]), esc('; '.join(ch))))
seeded = '\n'.join(rows)
def put(s, name, body):
    a, b = '<!-- BEGIN %s -->' % name, '<!-- END %s -->' % name
    if a not in s:
        raise SystemExit('marker %s missing' % name)
    i, j = s.index(a) + len(a), s.index(b)
    return s[:i] + '\n' + body + '\n' + s[j:]
s = put(s, 'fixed', fixed)
s = put(s, 'known', known)
s = put(s, 'seeded', seeded)
s = re.sub(r'<!-- nfixed -->\d+', '<!-- nfixed -->%d' % n, s)
s = re.sub(r'<!-- nseeded -->\d+', '<!-- nseeded -->%d' % cnt, s)
open(p, 'w').write(s)
print('fixed', n, 'seeded', cnt)
