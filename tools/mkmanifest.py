#!/usr/bin/env python3
"""Regenerates /verif/MANIFEST.json from the table below and the PROPS table of /verif/check.
A property is claimed as soon as /verif/check knows it; everything else is listed under not_applicable
with the reason it is not claimed (yet)."""
import json
import os
import re
import subprocess

ROOT = os.path.dirname(os.path.dirname(os.path.abspath(__file__)))

META = {
    "C01": dict(level="exploration",
                text="generated-input search for panics, hangs, capacity dependence and out-of-bounds views: ref-built frames of every Parse branch with structural mutators, header-biased raw bytes, every prefix of drawn frames, each parsed in three buffers (two spare-capacity fills and cap==len); every exported view type is driven by per-view encodings and all its zero-argument getters are called by reflection once IsValid accepts; echo replies (matching, foreign, duplicated) are parsed while 1-4 pings are in flight (shared state behind Parse). Thorough adds native coverage-guided fuzzing with the same oracle",
                note="evidence of absence only up to the generated cases; Ether.Payload() of a header-only frame returning spare capacity is the documented builder idiom and exempt; String() belongs to C20",
                tech="property-based testing (rapid) with structure-aware mutators + bounded-exhaustive prefix sweep + native go fuzzing; oracle = no panic / no hang (watchdog) / capacity-independence / pointer-range invariant"),
    "C02": dict(level="exploration",
                text="differential testing of Session.Parse against an independent reference decoder written from the documented classification table (EtherType, IP protocol, UDP port precedence) on well-formed and single-defect frames, exhaustive over every ordered pair of table ports for IPv4 and IPv6, plus getter-by-getter comparison of every view against the RFC byte positions for drawn field values",
                note="trusts ref.Decode (written from README/RFC layouts, not from Parse's control flow); IPv6 frames with bytes after 40+PayloadLen and the end of Frame.Payload() are lenient (both outcomes accepted, counted); ICMP4Redirect address getters and ICMP6RouterSolicitation.SourceLLA/Options have no RFC layout to compare with",
                tech="property-based differential testing against a reference decoder (rapid) + exhaustive port-pair table"),
    "C03": dict(level="exploration",
                text="round-trip testing of every encoder (Ether/IPv4/IPv6/UDP/ICMP echo/ARP/DHCPv4/DNS query/NDP NS+NA) through both the library's views and independent decoders, length-consistency of every layer, composition checked through Parse, and the AppendPayload capacity contract with guard bytes around the buffer",
                note="trusts the ref decoders; buffer capacities from the documented minimum up to EthMaxSize; DHCP option maps limited to encodings that fit the encoder's 1024-byte scratch area; nil payloads are not passed to IP6.AppendPayload (treated by the library as a caller error)",
                tech="property-based round-trip testing (rapid) with an independent decoder as oracle"),
    "C04": dict(level="exploration",
                text="model-based testing of the host tracker: every operation sequence up to depth 4 (quick) / 5 (thorough) over a 15-symbol alphabet on a fresh session (exhaustive for that sub-space) plus rapid-drawn histories of 5..60 operations over all MAC/IP classes, 3 LAN prefixes and 3 deadline triples; after every operation FindIP, GetHosts, IPAddrs, FindByMAC and FindMACEntry are compared with a ~150-line reference model written from the statement; time is virtual (LastSeen is written through the exported field, purge runs through the VerifPurge hook)",
                note="trusts the reference model; virtual time replaces the wall clock (the probe goroutine purge starts is not awaited); the own-host entry loses its never-expire stamp when a forged ARP names it as sender - the model mirrors that (DESIGN.md section 23)",
                tech="model-based stateful property testing (rapid op lists as data + interpreter) + bounded-exhaustive sequence enumeration"),
    "C05": dict(level="exploration",
                text="invariant checking over generated histories: the exported host and MAC tables are walked after every operation of exhaustive depth-3/4 sequences, rapid histories including SetDHCPv4IPOffer/Capture/Release, and dedicated delete-of-middle-element / re-binding chains; PrintTable is run each time",
                note="the tables are read at quiescent points of a single-goroutine history; the quiescent points of concurrent executions are checked under C09",
                tech="stateful property testing with a structural invariant oracle (rapid) + bounded-exhaustive sequence enumeration"),
    "C06": dict(level="exploration",
                text="transcript comparison: the notifications drained after every step of exhaustive depth-4/5 sequences and rapid histories are compared (multiset, offline-before-online order, content) with the transcript the statement prescribes, computed by the reference model",
                note="a re-bound address may or may not be reported offline for its previous holder (statement silent: lenient); one history shape is a listed known finding and is excluded from the random generator by construction while a dedicated sub-check keeps exercising it",
                tech="model-based stateful property testing (rapid) with a notification-ledger oracle + bounded-exhaustive sequence enumeration"),
    "C09": dict(level="exploration",
                text="randomized multi-core stress under the race detector: rapid draws scenarios (a packet loop over 10-60 generated protocol frames on a reused buffer, a purge goroutine with advancing time, 1-6 API actors with 5-40 calls from the statement's list plus the handlers' own query calls, a notification consumer, 1 in 4 with a concurrent Close; drawn pauses and GOMAXPROCS 1-16 perturb the schedule); each scenario runs 3 rounds on fresh sessions in a child process of the harness built with -race; oracles: every race-detector report (named by the innermost non-helper library functions of its two accesses), runtime faults of the child (concurrent map access), recovered panics, a 30 s join time-out with goroutine dump (deadlock), the C05 table invariants once everything has joined, and no library goroutine left 10 s after Close",
                note="schedules are sampled, not enumerated (Go's scheduler cannot be driven from outside); a race is only reported when the detector observes both accesses in one run, so a violation confined to a narrow window may need the thorough tier; evidence differs between runs of one seed; replay re-runs the scenario but cannot force the interleaving",
                tech="property-based stress testing (rapid-generated concurrent scenarios) with schedule perturbation under the Go race detector, one child process per scenario"),
    "C13": dict(level="exploration",
                text="(a) synchronous model: StartHunt / StopHunt / DHCP-offer / received-ARP histories (requests, probes, announcements, replies with sender-IP and Ethernet-source variants, private off-LAN probe targets) against a model of the hunt list; after every step the frames on the connection are decoded by the reference ARP decoder and each forged frame (sender IP = router, sender MAC = host) must be explained by the model, each probe for an offered address must be rejected; (b) real time: batches of 12-24 concurrent scenarios with calls at drawn offsets within 8 s, observed for 17 s on timestamped connections: every forged frame falls into a hunt interval of its target (+1 s), every completed StopHunt is followed by a restoring ARP within one cycle, nothing after Close",
                note="real-time attribution uses 1 s slack and one 6 s cycle + 2 s for the restore; the restore is not required when the handler was closed or the target re-hunted meanwhile; the loop's restoring ARP to ever-hunted MACs is allowed; the 4 s..6 s spoof period is real time so thorough depth is bounded by wall clock",
                tech="model-based stateful property testing (rapid) of captured frames against a hunt-list model + timestamped real-time scenario batches"),
    "C14": dict(level="exploration",
                text="(a) synchronous model of the ICMPv6 hunt list over StartHunt/StopHunt/Close/RA histories with IPv4 (incl. 169.254/16), global, ULA, IPv4-mapped, link-local and address-less targets: a step is judged when every spoof loop of the process is parked (goroutine dump), every forged neighbour advertisement (type 136, TLLA = host MAC) must go to a hunted MAC, name a learned router, carry override + hop limit 255, never precede the first router or follow Close, and their number per step is bounded by loops x routers (idempotence of StartHunt); real-time batches as in C13 with the 2.0-2.8 s cycle; (b) router advertisements are serialised from generated structures (flags, preference, hop limit, lifetimes, timers, 0-3 prefix options with bits past the prefix length, MTU, RDNSS, DNSSL, route information, SLLA, unknown types, rotated option order, up to 4 RAs from 2 routers, incl. 'twin' RAs of equal length and checksum with swapped 16-bit fields) into a reused, afterwards poisoned receive buffer and FindRouter / LANRouters are compared field by field with the structure",
                note="a closed handler is documented unusable: after Close the history only observes; RAs are delivered four times (the handler processes one in four); the route information option is not among the fields the statement lists: only consistency is required of it; count bounds are skipped once a case ran 1.5 s",
                tech="model-based stateful property testing (rapid) against a hunt-list model with goroutine-quiescence detection + round-trip from generated RA structures via an independent encoder + real-time scenario batches"),
    "C19": dict(level="exploration",
                text="batches of concurrent Ping/Ping6 calls on one session, each with a drawn reply script (early, duplicate, foreign id/sequence, echo request instead of reply, truncated, late, none, wrong family): the call must return nil exactly when a matching reply was injected before its timeout, ErrTimeout otherwise, never complete on a foreign reply, and the process-wide waiter table must be empty when all calls have returned (hook VerifPingWaiters); send errors must not leave a waiter behind",
                note="late replies are injected only after the call returned (a reply racing the timeout is legitimately either outcome); scripts that could not be played in time under load are counted inconclusive, not judged",
                tech="property-based testing (rapid) of generated concurrent call/reply schedules against a correlation model; waiter-table invariant via a build-tagged hook"),
    "C20": dict(level="exploration",
                text="differential testing of every fastlog field appender against the standard library renderers: exhaustive over all uint16/uint8 values, every byte in every MAC position, all 256 IPv6 zero-group layouts x 5 group shapes (net.IP and netip.Addr), rapid-drawn multi-field lines through ToString and Write, over-long arrays after prefixes of every length, and String() of every valid view / table entry",
                note="array framing (\"[a, b,]\") is taken from the code, the statement only fixes element texts and brackets; lines whose reference text exceeds the 2048-byte buffer are outside the statement (documented precondition) except for the three array appenders",
                tech="property-based differential testing against stdlib renderers (rapid) + exhaustive value-space enumeration"),
    "C07": dict(level="exploration",
                text="every exported send function is called with generated arguments on 4 NIC configurations, and the frames emitted along host-tracking histories (purge probes) and DHCP histories (OFFER/ACK/NAK, forced DECLINE/RELEASE, attack DISCOVERs) are captured on the session connection; each frame is judged by strict independent decoders: Ethernet source = host MAC, length consistency at every layer, IPv4/ICMP/ICMPv6(+pseudo-header) checksums, NDP type/code/hop limit/option list, RFC 2464 multicast MAC, ARP header, DHCP cookie/End/300-byte minimum, DNS via dnsmessage, and compared with the call's arguments",
                note="trusts the ref decoders; a caller-supplied (MAC, multicast IP) pair is sent as given (DESIGN.md 23.3); IPv4 multicast uses the broadcast MAC by design; the frames of the ARP/ICMPv6 spoof loops are judged by the same decoder inside C13/C14",
                tech="property-based testing (rapid) of send paths against independent strict decoders; monitors on generated stateful histories"),
    "C08": dict(level="exploration",
                text="protocol-aware frame generators (ARP, DHCPv4, ICMPv4 with embedded datagrams, ICMPv6/NDP option lists, DNS, mDNS/LLMNR with every record type in every section, NBNS, SSDP, 802.3) closed under truncation at every offset, count/length/pointer corruption and byte mutation, dispatched by PayloadID through Parse -> Process* -> Notify exactly as the examples do, plus raw bytes into the exported payload decoders behind their IsValid; every case is journalled before it runs and a watchdog turns a handler that does not return within 20 s into a violation with a replay file; thorough adds native coverage-guided fuzzing",
                note="termination is judged by a 20 s budget against a nominal cost below 1 ms; absence of panics/hangs is only shown for the generated cases",
                tech="property-based testing (rapid) with protocol-aware generators + exhaustive truncation sweeps + native go fuzzing; oracle = returns without panic within the watchdog budget"),
    "C10": dict(level="exploration",
                text="differential (metamorphic) testing: each generated packet history (host-tracking frames, DHCP handshakes, RAs with option lists, DNS/mDNS/NBNS/SSDP name traffic, ARP towards a hunted host, capture toggles, purges, lease ticks) runs twice in fresh sessions and handlers - once with ONE shared receive buffer that is overwritten after every step, once with a private buffer per packet - and after every step notifications, emitted frames (DHCP decoded), host and MAC tables, leases, IPv6 routers, DNS table, the mDNS response cache (hook) and name-handler results (rendered after the buffer was overwritten; name traffic also from untracked stations, mDNS responses delivered twice) must be identical",
                note="time stamps are not compared; frames sent by goroutines are compared as a multiset after joining the senders and a difference must reproduce three times to be reported; purge probes and the hunt loop's periodic announcements are not compared (their order depends on map iteration / scheduling)",
                tech="property-based differential testing (rapid): shared poisoned buffer vs private buffers, transcript equality"),
    "C16": dict(level="exploration",
                text="for generated well-formed frames of every PayloadID class and six source situations every view returned by Parse is checked for pointer identity with the input buffer at the reference offset, write-through in both directions and containment in the frame (also when the UDP length field overstates the datagram), and testing.AllocsPerRun(50, Parse) must be 0 once the source is tracked; every UDP port class is enumerated in both directions for all situations",
                note="non-race build, loggers at their default level; a non-zero allocation figure is re-measured twice before it is reported",
                tech="property-based testing (rapid) with pointer-identity and allocation-count oracles + exhaustive port-class table"),
    "C18": dict(level="fault_enumeration",
                text="crash-point and corruption enumeration of the DHCP lease file: ack-only histories produce lease files (snapshot after every ACK); restart on the last snapshot must reproduce exactly the acknowledged bindings (independent YAML reader and the handler's own table), acknowledge every renewal and keep bound addresses from a new client; every prefix of the file, every single-byte substitution (2/16 drawn values per offset), deletion and duplication of every line is loaded with New under the watchdog: no panic, no hang, no binding without client id or outside the home LAN, and any loaded set that is a proper subset or contains a foreign binding is classified per fault kind (listed known findings)",
                note="a crash of the non-atomic rewrite is modelled as a prefix of the new file; restart = new session (capture state is not persistent); the 8 (outcome x fault kind) classes that the unchecksummed YAML format cannot avoid are known findings and do not fail the check; behind them two differential oracles against the damaged file itself (independent YAML reader) keep other loader defects visible: nothing may be loaded that is not an entry of that file, and when anything is loaded every entry of it that is valid by the loader's own rules must be",
                tech="fault injection by exhaustive enumeration of truncation points / byte substitutions / line faults over files produced by generated histories (rapid), with a restart oracle"),
    "C11": dict(level="exploration",
                text="model-based testing of the DHCP server against a wire-level ledger that only knows what the replies said: every message sequence to depth 4/5 over a 12-symbol alphabet for two clients on a 14-address pool (exhaustive), rapid histories of 5..80 messages (all request kinds, 11 requested-address classes, 4 client identities two of which share a chaddr, spoofed client-ids, capture toggles, +1min/+5h ticks, foreign traffic) on three prefix configurations and three modes, and a pool-exhaustion sub-check",
                note="a client that sends DISCOVER is in INIT state and no longer holds its address (DESIGN.md C11); RELEASE is treated as freeing although the server keeps the binding - both choices make the oracle accept more; lease and offer expiry are driven through MinuteTicker look-aheads and through the hook VerifAgeLeases (the ledger keeps a virtual clock); nextAttack is not virtualised",
                tech="model-based stateful property testing (rapid op lists + interpreter + ledger oracle) + bounded-exhaustive sequence enumeration"),
    "C12": dict(level="exploration",
                text="every OFFER/ACK/NAK along the C11 histories (all three modes, three home/netfilter prefix pairs, exhaustive depth 4/5 over a 12-symbol alphabet with capture toggles and ticks) is decoded by the reference decoder and checked against the transaction: op/xid/chaddr echo, yiaddr inside the subnet selected by the capture state at that moment, mask before router, router, DNS, server id, lease time, ACK only of the offer of this transaction or the client's lease, never for must-not-ACK requests; sub-check 'reconfigured': a second handler with another DNS server / a longer netfilter mask restarted on the first run's lease file must answer with the configuration it was given",
                note="NAK or silence are both accepted for requests that must not be acknowledged; an offer that a tick / NAK / DECLINE may have invalidated may still be acknowledged (lenient, counted)",
                tech="model-based stateful property testing (rapid) with a per-reply conformance oracle + bounded-exhaustive sequence enumeration"),
    "C17": dict(level="exploration",
                text="DNS/mDNS/NBNS messages are serialised by an independent builder (suffix compression and pointer chains, every record type, every section) and the handler's view - ProcessDNS result and DNSFind, ProcessMDNS entry lists, ProcessNBNS name - is compared with the generated structure (and cross-read with dnsmessage); five crafted malformation classes must be rejected without leaving a table entry; NameEntry.Merge and Host.Update*Name are checked against the no-erasure / modified-flag / idempotence laws on generated entries and update sequences",
                note="messages are limited to one Ethernet frame; PTR owners are in-addr.arpa names; for mDNS the library's own parser is dnsmessage, so the oracle there is the generated structure, never dnsmessage; Type/Expire are not attributes for the modified flag",
                tech="property-based differential testing against an independent DNS builder/decoder (rapid) + algebraic law checking"),
    "C15": dict(level="exploration",
                text="generated-input search against an independent RFC 1071 implementation: exhaustive for lengths 0..3, every single-word perturbation of carriers of every length, biased random strings, metamorphic split/insert relations, and IPv4 headers completed by the library verified by the reference",
                note="trusts ref.Checksum (15 lines, stdlib only); inputs up to an Ethernet frame (1522 bytes)",
                tech="property-based testing (rapid) + bounded-exhaustive enumeration against a reference implementation"),
}


# sub-checks and generator features added after the first build (DESIGN.md "Status" and section 25 say where each came from)
LATER = {
    "C01": "pending pings with a stalled transmit path; NDP search-list labels laid against the end of the option; group-addressed short vendor frames",
    "C02": "every EtherType value (65536) times five payload shapes incl. double tagging; IPv4-mapped / site-local / unique-local IPv6 addresses",
    "C03": "kept IPv4 views; 60..253 DHCP options; Ether.AppendPayload with spare-capacity copies and padding; mixed-case DNS names; NDP messages kept across later marshals",
    "C04": "full unread notification channel; many-stations (17..250 hosts through both purges); LastSeen must be refreshed by every frame; MAC twins (one-byte differences at every position, swapped bytes, a VRRP MAC); IPv6 sources that are unicast but neither link-local nor global (loopback, mapped)",
    "C05": "full unread notification channel; MAC twins and special MACs",
    "C06": "names with a trailing dot / case twins; DHCP frames from an off-LAN source; LastSeen refresh",
    "C07": "destination of DHCP replies; RFC 2131 fields of forged DECLINE / RELEASE (the histories call StartHunt on capture); exact NBNS names",
    "C08": "long client identifiers; RDLENGTH corruption; RA.Options must not invent prefixes; the environment advertises as a router (RADVS) and gets RAs claiming its own address; aged deliveries (mDNS cache expired through a hook); deliveries in slices without spare capacity",
    "C09": "DHCP dialogues (incl. a foreign server's OFFER, client identifiers, init-reboot for a foreign address) with a lease file; full-channel drill; a crowd of 70..150 tracked stations; lingering rounds (loops go through timer cycles)",
    "C10": "structured router advertisements from two routers; shared client identifiers; overstated UDP lengths",
    "C11": "five networks (/28, /24, /25, /23, and the default configuration whose netfilter subnet is the whole LAN); identity k6; request class twin; session purges; recycling sub-check; vendor class and requested lease time options; a virtual clock in the ledger with age steps (hook VerifAgeLeases)",
    "C12": "the additions of C11; reconfigured prefix lengths",
    "C13": "forged packets must keep coming while hunted (first within 2 s, then every 9 s at most); confirm steps; starts under another address; a bystander claiming the router's address",
    "C14": "RDNSS with 16+ servers; twin advertisements; IPv4 link-local and site-local targets",
    "C15": "Checksum must not write its input; send functions at three log levels, to group / broadcast destinations, router advertisements of 1..16 prefixes",
    "C16": "receive ring of 1..3 buffers; echo messages after and during pings of the process; captured senders",
    "C17": "second responses about the same and about another name; an earlier mDNS message from the same station; IPv4-mapped AAAA; labels that are words of the naming schemes",
    "C18": "decline steps; default and /23 configurations; the probing identity shares the station's MAC and asks before the renewals; many-leases (110..240 clients)",
    "C19": "six pings pending at once across the identifier wrap-around; replies parsed from inside the connection's WriteTo; reply header variants; other ICMP types",
    "C20": "every appender (Stringer, Bytes, Sprintf, Module, LF too); durations beyond 2^32 s; next line after an over-long array; no truncation while the line fits; wide IPv4 arrays at every alignment",
}

REASON_PENDING = "check under construction in this session (planned, see DESIGN.md); not a statement that the technique cannot apply"


def built_props():
    src = open(os.path.join(ROOT, "check")).read()
    body = src[src.index("PROPS = {"):src.index("ASSUME = {")]
    return sorted(set(re.findall(r'^\s+"(C\d+)": dict\(', body, re.M)))


def hook_commits():
    try:
        out = subprocess.run(["git", "-C", "/repo", "log", "--format=%H %s"], stdout=subprocess.PIPE, text=True).stdout
        return [l.split()[0] for l in out.splitlines() if l.split(" ", 1)[1].startswith("verif hooks")]
    except Exception:  # noqa
        return []


def main():
    ids = ["C%02d" % i for i in range(1, 21)]
    built = [p for p in built_props() if META.get(p, {}).get("text")]
    m = {
        "version": 1,
        "setup_cmd": "./check --setup",
        "hooks": {
            "guard": "verif",
            "enable": "go test -tags verif; the harness module replaces github.com/irai/packet with /repo, so every check recompiles /repo's working tree with the hook files (//go:build verif) included",
            "baseline_off_cmd": "cd /repo && GOFLAGS=-mod=mod go test -json -vet=off -count=1 -timeout 25m ./...",
            "source_commits": hook_commits(),
            "add_only": True,
        },
        "engines": [{
            "name": "harness", "path": "/verif/harness", "serves_properties": built,
            "kind_free_text": "one Go test binary (pgregory.net/rapid v1.3.0 generators, bounded-exhaustive enumerators, native go fuzz targets, reference codecs and models in pure Go) sharded over up to 16 processes by the python driver /verif/check, which merges the shards' statistics into the evidence file and classifies violations against known_findings.json",
        }],
        "checks": [],
        "notes": "DESIGN.md explains every check; ./check <ID> quick|thorough [--replay file]; known findings: known_findings.json; seeded mutants used for sensitivity testing: seeded/",
        "not_applicable": [],
    }
    for i in ids:
        if i in built:
            c = META[i]
            m["checks"].append({
                "property_id": i,
                "quick_cmd": "./check %s quick" % i,
                "thorough_cmd": "./check %s thorough" % i,
                "evidence_file": "/verif/evidence/%s.json" % i,
                "replay_cmd_template": "./check %s --replay {path}" % i,
                "engine": "harness",
                "level_claimed": {"category": c["level"], "text": c["text"] + ("; added later: " + LATER[i] if i in LATER else ""), "design_ref": "DESIGN.md section " + i + ", Status and section 25"},
                "level_note": c["note"],
                "technique": c["tech"],
            })
        else:
            m["not_applicable"].append({"property_id": i, "reason": META.get(i, {}).get("na", REASON_PENDING)})
    with open(os.path.join(ROOT, "MANIFEST.json"), "w") as f:
        json.dump(m, f, indent=1)
    print("claimed:", ",".join(built))


if __name__ == "__main__":
    main()
