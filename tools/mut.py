#!/usr/bin/env python3
"""Sensitivity testing helper: apply one textual mutation to a scratch worktree of /repo and run checks against it.
usage: mut.py <relpath> <old> <new> <ID> [<ID>...]     (tier from VERIF_TIER, default quick)
The worktree lives under /tmp and is removed afterwards; nothing is written to /repo or to the committed replays/evidence."""
import os, subprocess, sys, tempfile, shutil
rel, old, new, props = sys.argv[1], sys.argv[2], sys.argv[3], sys.argv[4:]
wt = tempfile.mkdtemp(prefix="mut-", dir="/tmp")
os.rmdir(wt)
subprocess.check_call(["git", "-C", "/repo", "worktree", "add", "-q", "--detach", wt, "HEAD"])
try:
    p = os.path.join(wt, rel)
    s = open(p).read()
    if s.count(old) != 1:
        print("mut: pattern occurs %d times in %s" % (s.count(old), rel)); sys.exit(2)
    open(p, "w").write(s.replace(old, new))
    env = dict(os.environ, GOFLAGS="-mod=mod", GOPROXY="off", GOSUMDB="off", GOTOOLCHAIN="local")
    b = subprocess.run(["go", "build", "./..."], cwd=wt, env=env, stdout=subprocess.PIPE, stderr=subprocess.STDOUT, text=True)
    if b.returncode != 0:
        print("mut: mutant does not compile\n" + b.stdout); sys.exit(2)
    for pr in props:
        r = subprocess.run(["/verif/check", pr, os.environ.get("VERIF_TIER", "quick")], env=dict(env, VERIF_REPO=wt), stdout=subprocess.PIPE, stderr=subprocess.STDOUT, text=True)
        lines = [l for l in r.stdout.splitlines() if l.startswith("VIOLATION") or l.startswith("  signature") or "INCONCLUSIVE" in l]
        print("%s exit=%d %s" % (pr, r.returncode, "CAUGHT" if r.returncode == 1 else ("MISSED" if r.returncode == 0 else "INCONCLUSIVE")))
        for l in lines[:4]:
            print("   " + l[:300])
finally:
    subprocess.call(["git", "-C", "/repo", "worktree", "remove", "--force", wt])
    shutil.rmtree(wt, ignore_errors=True)
